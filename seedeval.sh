#!/bin/bash
# seedeval.sh <worktree> <prop> [more props]: confirm a seeded change and run the checks against it
# (applies the patch to /repo, runs limevc without touching evidence, and reverts /repo).
set -u
export GOFLAGS=-mod=mod GOPROXY=off GOSUMDB=off GOTOOLCHAIN=local
wt=$1; shift
cd $wt || exit 2
echo "== patch =="; cat patch.diff | head -60
echo "== demo with change =="; go test -count=1 -run 'TestSeeded' . 2>&1 | tail -3
git apply -R patch.diff; echo "== demo without change =="; go test -count=1 -run 'TestSeeded' . 2>&1 | tail -2; git apply patch.diff
mv seeded_demo_test.go /tmp/seeded_demo_test.go.bak; echo "== suite with change =="; go test -count=1 . 2>&1 | tail -1; mv /tmp/seeded_demo_test.go.bak seeded_demo_test.go
cd /verif
if [ -n "$(git -C /repo status --porcelain)" ]; then echo "REFUSING: /repo has uncommitted changes (commit them first; this script reverts the seeded patch)"; exit 2; fi
git -C /repo apply $wt/patch.diff || { echo "patch does not apply to /repo"; exit 2; }
for p in "$@"; do
  echo "== check $p on seeded tree =="
  ${LIMEVC:-bin/limevc} -repo /repo -verif /verif -prop $p -no-evidence -out /tmp/seedout 2>&1 | grep "VIOLATION\|UNDEC\|VACUOUS\|^property" | sed 's/replay=[^ ]* //' | head -12
done
git -C /repo apply -R $wt/patch.diff ; git -C /repo status --short | head -3
rm -rf /tmp/seedout
