#!/usr/bin/env python3
"""debug helper: print an unsat core of an SMT query file produced by limevc"""
import sys, subprocess, re
src=open(sys.argv[1]).read().splitlines()
out=["(set-option :produce-unsat-cores true)"]
n=0; names={}
for l in src:
    if l.startswith("(assert "):
        n+=1; nm="a%d"%n; names[nm]=l
        out.append("(assert (! %s :named %s))"%(l[8:-1],nm))
    elif l.startswith("(get-value") or l.startswith("(set-option :produce-models"):
        continue
    else: out.append(l)
out.append("(get-unsat-core)")
open("/tmp/core.smt2","w").write("\n".join(out))
r=subprocess.run(["z3-new","-T:30","/tmp/core.smt2"],capture_output=True,text=True).stdout
print(r.splitlines()[0])
for nm in re.findall(r"a\d+", r.split("\n",1)[1] if "\n" in r else ""):
    print(nm, names[nm][:700])
