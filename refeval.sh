#!/bin/bash
# refeval.sh <patch.diff> <prop> [prop...]: apply a behaviour-preserving refactoring to a scratch copy of
# /repo and run the checks on it: every check should still exit 0 (false-alarm / brittleness measurement).
set -u
export GOFLAGS=-mod=mod GOPROXY=off GOSUMDB=off GOTOOLCHAIN=local
patch=$1; shift
d=$(mktemp -d /tmp/refevalXXXX)
rsync -a --exclude .git /repo/ $d/repo/
( cd $d/repo && patch -p1 -s < $patch ) || { echo "patch does not apply"; rm -rf $d; exit 2; }
for p in "$@"; do
  ${LIMEVC:-/verif/bin/limevc} -repo $d/repo -verif /verif -prop $p -no-evidence -no-replay -out $d/out 2>&1 | grep "VIOLATION\|UNDEC\|VACUOUS\|^property" | sed 's/replay=[^ ]* //' | cut -c1-260 | head -8
  echo "  -> exit of $p: ${PIPESTATUS[0]}"
done
rm -rf $d
