#!/usr/bin/env python3
"""Self-test corpus (DESIGN.md §3.13): must-fail mutations and must-pass refactorings.

usage: selftest.py [property ...]   (default: all)
Each case is selftest/<prop>/<name>.diff with a first-line header comment
  # expect: fail <obligation-substring>     or     # expect: pass
The diff is applied to a scratch copy of /repo (outside /repo and /verif, removed
afterwards) and the engine is run on the copy.
"""
import os, subprocess, sys, tempfile, shutil, glob, re

VERIF = os.path.dirname(os.path.abspath(__file__))
REPO = os.environ.get("VERIF_REPO", "/repo")

def run_case(prop, path, seeded=False):
    lines = open(path).read().splitlines()
    expect = [l for l in lines if l.startswith("# expect:")]
    if seeded:
        expect = ["# expect: fail"]  # a seeded change only has to be reported as a violation of its property
    if not expect:
        return (False, "no expect header")
    exp = expect[0][len("# expect:"):].split()
    scratch = tempfile.mkdtemp(prefix="limevc-selftest-")
    try:
        dst = os.path.join(scratch, "repo")
        subprocess.run(["rsync", "-a", "--exclude", ".git", REPO + "/", dst + "/"], check=True)
        p = subprocess.run(["patch", "-p1", "-s", "-d", dst, "-i", path], capture_output=True, text=True)
        if p.returncode != 0:
            return (False, "patch does not apply: " + p.stdout + p.stderr)
        env = dict(os.environ, GOFLAGS="-mod=mod", GOPROXY="off", GOSUMDB="off", GOTOOLCHAIN="local")
        r = subprocess.run([os.path.join(VERIF, "bin/limevc"), "-repo", dst, "-verif", VERIF, "-prop", prop,
                            "-no-replay", "-no-evidence", "-out", os.path.join(scratch, "out")],
                           capture_output=True, text=True, env=env)
        out = r.stdout + r.stderr
        if exp[0] == "pass":
            ok = r.returncode == 0
            return (ok, "exit %d%s" % (r.returncode, "" if ok else "\n" + out[-1500:]))
        want = exp[1] if len(exp) > 1 else ""
        viol = [l for l in out.splitlines() if l.startswith("VIOLATION")]
        ok = r.returncode == 1 and any(want in l for l in viol)
        return (ok, "exit %d, %d violation lines%s" % (r.returncode, len(viol), "" if ok else "\n" + out[-1500:]))
    finally:
        shutil.rmtree(scratch, ignore_errors=True)

def main():
    props = sys.argv[1:] or sorted(os.path.basename(d) for d in glob.glob(os.path.join(VERIF, "selftest", "C*")))
    bad = 0
    n = 0
    for prop in props:
        for path in sorted(glob.glob(os.path.join(VERIF, "selftest", prop, "*.diff"))):
            n += 1
            ok, msg = run_case(prop, path)
            print("%s %s/%s: %s" % ("ok  " if ok else "FAIL", prop, os.path.basename(path), msg))
            if not ok:
                bad += 1
        # seeded changes written by fresh sub-agents (seeded/<prop>-*/patch.diff) are canaries too
        for path in sorted(glob.glob(os.path.join(VERIF, "seeded", prop + "-*", "patch.diff"))):
            n += 1
            ok, msg = run_case(prop, path, seeded=True)
            print("%s seeded/%s: %s" % ("ok  " if ok else "FAIL", os.path.basename(os.path.dirname(path)), msg))
            if not ok:
                bad += 1
    print("selftest: %d cases, %d failed" % (n, bad))
    sys.exit(1 if bad else 0)

if __name__ == "__main__":
    main()
