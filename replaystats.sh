#!/bin/bash
# replaystats.sh: for every archived seeded change, run the check of its property with replay on a scratch
# copy and report how the violations were replayed (end-to-end / modular / no-failing-input-found).
export GOFLAGS=-mod=mod GOPROXY=off GOSUMDB=off GOTOOLCHAIN=local
cd /verif
for d in seeded/*/; do
  name=$(basename $d); prop=${name%%-*}
  s=$(mktemp -d /tmp/rsXXXX); rsync -a --exclude .git /repo/ $s/repo/
  ( cd $s/repo && patch -p1 -s < /verif/$d/patch.diff ) || { echo "$name patch-failed"; rm -rf $s; continue; }
  out=$(bin/limevc -repo $s/repo -verif /verif -prop $prop -no-evidence -out $s/out 2>&1 | grep "^VIOLATION")
  n=$(echo "$out" | grep -c VIOLATION); e=$(echo "$out" | grep -c "replayed=end-to-end"); m=$(echo "$out" | grep -c "replayed=modular"); x=$(echo "$out" | grep -c "no-failing-input-found")
  echo "$name violations=$n end-to-end=$e modular=$m none=$x"
  rm -rf $s
done
