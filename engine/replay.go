package main

// Counterexample replay: a `sat` obligation's model is turned into an
// in-package Go test that builds the inputs, calls the real function and
// re-evaluates the failed contract clause (or watches for the excluded panic).
// The test is injected with `go test -overlay`; nothing is written to /repo.

import (
	"bytes"
	"context"
	"encoding/json"
	"fmt"
	"go/ast"
	"go/parser"
	"go/token"
	"go/types"
	"os"
	"os/exec"
	"path/filepath"
	"regexp"
	"sort"
	"strconv"
	"strings"
	"time"

	"golang.org/x/tools/go/ssa"
)

// ---- s-expressions ------------------------------------------------------------

type sx struct {
	atom string
	list []*sx
	isL  bool
}

func parseSx(s string) []*sx {
	var out []*sx
	i := 0
	var parse func() *sx
	skip := func() {
		for i < len(s) && (s[i] == ' ' || s[i] == '\n' || s[i] == '\t' || s[i] == '\r') {
			i++
		}
	}
	parse = func() *sx {
		skip()
		if i >= len(s) {
			return nil
		}
		if s[i] == '(' {
			i++
			n := &sx{isL: true}
			for {
				skip()
				if i >= len(s) {
					return n
				}
				if s[i] == ')' {
					i++
					return n
				}
				c := parse()
				if c == nil {
					return n
				}
				n.list = append(n.list, c)
			}
		}
		if s[i] == '"' {
			j := i + 1
			for j < len(s) {
				if s[j] == '"' {
					if j+1 < len(s) && s[j+1] == '"' {
						j += 2
						continue
					}
					break
				}
				j++
			}
			a := s[i : j+1]
			i = j + 1
			return &sx{atom: a}
		}
		j := i
		for j < len(s) && s[j] != '(' && s[j] != ')' && s[j] != ' ' && s[j] != '\n' && s[j] != '\t' {
			j++
		}
		a := s[i:j]
		i = j
		return &sx{atom: a}
	}
	for {
		n := parse()
		if n == nil {
			break
		}
		out = append(out, n)
	}
	return out
}

func (n *sx) String() string {
	if !n.isL {
		return n.atom
	}
	var ps []string
	for _, c := range n.list {
		ps = append(ps, c.String())
	}
	return "(" + strings.Join(ps, " ") + ")"
}

func sxInt(n *sx) (int64, bool) {
	if n == nil {
		return 0, false
	}
	if !n.isL {
		v, err := strconv.ParseInt(n.atom, 10, 64)
		return v, err == nil
	}
	if len(n.list) == 2 && n.list[0].atom == "-" {
		v, ok := sxInt(n.list[1])
		return -v, ok
	}
	return 0, false
}

func sxString(n *sx) (string, bool) {
	if n == nil || n.isL || len(n.atom) < 2 || n.atom[0] != '"' {
		return "", false
	}
	body := n.atom[1 : len(n.atom)-1]
	body = strings.ReplaceAll(body, `""`, `"`)
	var b strings.Builder
	for i := 0; i < len(body); i++ {
		if body[i] == '\\' && i+2 < len(body) && body[i+1] == 'u' {
			if body[i+2] == '{' {
				j := strings.IndexByte(body[i:], '}')
				if j > 0 {
					if v, err := strconv.ParseInt(body[i+3:i+j], 16, 32); err == nil {
						b.WriteRune(rune(v))
						i += j
						continue
					}
				}
			} else if i+5 < len(body) {
				if v, err := strconv.ParseInt(body[i+2:i+6], 16, 32); err == nil {
					b.WriteRune(rune(v))
					i += 5
					continue
				}
			}
		}
		b.WriteByte(body[i])
	}
	return b.String(), true
}

// ---- collecting input terms -----------------------------------------------------

type inNode struct {
	T      types.Type
	L      []Term            // leaf terms of the value
	ptr    map[int]*inNode   // pointer leaf index -> pointee
	iface  map[int][]*inNode // tag leaf index -> candidate payload objects (one per candidate dynamic type)
	ifaceT map[int][]types.Type
	elems  map[int][]*inNode // slice arr-leaf index -> first elements
	fake   map[int]types.Type       // tag leaf index -> modelled interface that may be a scripted fake
	fn     map[int]*types.Signature // ref leaf index -> function value (scripted callback)
	addr   Term                     // where the value was loaded from ("" for a parameter value)
	onces  map[string]Term          // field path of an embedded sync.Once -> its ghost `fired`
}

const maxSliceElems = 3

func (x *Exec) initHeapSel(sort string, addr Term) Term {
	name := heapSym(heapKey(sort, addr)) + "_0"
	x.d.Declare(name, "(Array Ref "+sort+")")
	return tSel(name, addr)
}

func (x *Exec) initLoad(addr Term, t types.Type) Val {
	ls := leavesOf(t)
	v := Val{T: t}
	for _, l := range ls {
		v.L = append(v.L, x.initHeapSel(l.Sort, extend(addr, l.Path)))
	}
	return v
}

func (x *Exec) candidates(it types.Type) []types.Type {
	iface := it.Underlying().(*types.Interface)
	var out []types.Type
	for _, c := range x.prog.pkgTypes {
		if isInterface(c) {
			continue
		}
		if types.Implements(c, iface) {
			if _, isPtr := c.(*types.Pointer); !isPtr {
				// prefer the pointer form when both implement; keep value types too
			}
			out = append(out, c)
		}
	}
	return out
}

func (x *Exec) collect(v Val, depth int) *inNode {
	return x.collectWith(x.initLoad, v, depth)
}

func (x *Exec) collectWith(load func(addr Term, t types.Type) Val, v Val, depth int) *inNode {
	return x.collectAt(load, v, depth, "")
}

func isSyncOnce(t types.Type) bool {
	n, ok := t.(*types.Named)
	return ok && n.Obj().Name() == "Once" && n.Obj().Pkg() != nil && n.Obj().Pkg().Path() == "sync"
}

// onceGhosts finds the sync.Once values embedded in a stored struct and reads their ghost `fired`.
func (x *Exec) onceGhosts(load func(addr Term, t types.Type) Val, t types.Type, addr Term, path []int, out map[string]Term) {
	if isSyncOnce(t) {
		for _, g := range x.prog.spec.Ghosts["sync.Once"] {
			if g.Name == "fired" {
				out[fmt.Sprint(path)] = load(extendGhost(extend(addr, path), g.Index), tyBool).L[0]
			}
		}
		return
	}
	if st, ok := t.Underlying().(*types.Struct); ok {
		for i := 0; i < st.NumFields(); i++ {
			x.onceGhosts(load, st.Field(i).Type(), addr, append(append([]int(nil), path...), i), out)
		}
	}
}

func (x *Exec) collectAt(load func(addr Term, t types.Type) Val, v Val, depth int, at Term) *inNode {
	n := &inNode{T: v.T, L: v.L, ptr: map[int]*inNode{}, iface: map[int][]*inNode{}, ifaceT: map[int][]types.Type{}, elems: map[int][]*inNode{},
		fake: map[int]types.Type{}, fn: map[int]*types.Signature{}, addr: at, onces: map[string]Term{}}
	if at != "" {
		x.onceGhosts(load, v.T, at, nil, n.onces)
	}
	ls := leavesOf(v.T)
	for i, l := range ls {
		switch l.Kind {
		case LkRef:
			if sig, ok := l.T.Underlying().(*types.Signature); ok {
				n.fn[i] = sig
			}
		case LkTag:
			if x.modelled(l.T) {
				n.fake[i] = l.T
			}
		}
	}
	if depth <= 0 {
		return n
	}
	for i, l := range ls {
		switch l.Kind {
		case LkRef:
			if pt, ok := l.T.Underlying().(*types.Pointer); ok {
				if !supportedForReplay(pt.Elem()) {
					continue
				}
				n.ptr[i] = x.collectAt(load, load(v.L[i], pt.Elem()), depth-1, v.L[i])
			}
		case LkTag:
			for _, c := range x.candidates(l.T) {
				var pv Val
				if pt, ok := c.(*types.Pointer); ok {
					pv = load(v.L[i+1], pt.Elem())
				} else {
					pv = load(v.L[i+1], c)
				}
				n.iface[i] = append(n.iface[i], x.collectAt(load, pv, depth-1, v.L[i+1]))
				n.ifaceT[i] = append(n.ifaceT[i], c)
			}
		case LkSlArr:
			st := l.T.Underlying().(*types.Slice)
			if !supportedForReplay(st.Elem()) {
				continue
			}
			for k := 0; k < maxSliceElems; k++ {
				addr := extendIdx(v.L[i], fmt.Sprintf("(+ %s %d)", v.L[i+1], k))
				n.elems[i] = append(n.elems[i], x.collectWith(load, load(addr, st.Elem()), depth-1))
			}
		}
	}
	return n
}

func supportedForReplay(t types.Type) (ok bool) {
	defer func() {
		if r := recover(); r != nil {
			ok = false
		}
	}()
	leavesOf(t)
	return true
}

func (n *inNode) terms(out *[]Term) {
	for _, t := range n.L {
		*out = append(*out, t)
	}
	for _, t := range n.onces {
		*out = append(*out, t)
	}
	for _, c := range n.ptr {
		c.terms(out)
	}
	for _, cs := range n.iface {
		for _, c := range cs {
			c.terms(out)
		}
	}
	for _, cs := range n.elems {
		for _, c := range cs {
			c.terms(out)
		}
	}
}

// ---- building Go values from a model ----------------------------------------------

type goBuilder struct {
	x       *Exec
	vals    map[string]*sx
	objs    map[string]string
	stmts   []string
	imports map[string]bool
	n       int
	fail    string
	fakes   map[string]*fakeObj // by reference key of the payload / function value
	fakeOrd []string
	curPath []int // field path inside the node being printed
	needOnce bool
	unchecked []string // contract clauses of fakes that could not be turned into run-time checks
	usedGlob  bool
}

func (b *goBuilder) qual(p *types.Package) string {
	if p == nil || p == b.x.prog.pkg.Types {
		return ""
	}
	b.imports[p.Path()] = true
	return p.Name()
}

var anyRe = regexp.MustCompile(`\bany\b`)

// typeStr prints a type for the replay file (the module may predate go1.18: no `any`).
func (b *goBuilder) typeStr(t types.Type) string {
	return anyRe.ReplaceAllString(types.TypeString(t, b.qual), "interface{}")
}

func (b *goBuilder) val(t Term) *sx { return b.vals[t] }

func (b *goBuilder) refKey(n *sx) (string, bool) {
	// (mkref rid path)
	if n == nil || !n.isL || len(n.list) != 3 || n.list[0].atom != "mkref" {
		return "", false
	}
	rid, ok := sxInt(n.list[1])
	if !ok {
		return "", false
	}
	if rid == 0 {
		return "nil", true
	}
	return fmt.Sprintf("%d|%s", rid, n.list[2].String()), true
}

func (b *goBuilder) fresh() string {
	b.n++
	return fmt.Sprintf("v%d", b.n)
}

// expr returns a Go expression for the value described by node n.
func (b *goBuilder) expr(n *inNode) string {
	saved := b.curPath
	b.curPath = nil
	defer func() { b.curPath = saved }()
	return b.exprAt(n, n.T, 0, len(n.L))
}

func (b *goBuilder) exprAt(n *inNode, t types.Type, lo, hi int) string {
	switch u := t.Underlying().(type) {
	case *types.Basic:
		v := b.val(n.L[lo])
		var lit string
		switch {
		case u.Info()&types.IsBoolean != 0:
			if v == nil {
				lit = "false"
			} else {
				lit = v.atom
			}
		case u.Info()&types.IsString != 0:
			s, _ := sxString(v)
			lit = strconv.Quote(s)
		case u.Info()&types.IsInteger != 0:
			i, _ := sxInt(v)
			lit = fmt.Sprint(i)
		default:
			lit = "0"
		}
		if _, named := t.(*types.Named); named {
			return b.typeStr(t) + "(" + lit + ")"
		}
		return lit
	case *types.Pointer:
		key, ok := b.refKey(b.val(n.L[lo]))
		if !ok {
			b.fail = "pointer value not in model"
			return "nil"
		}
		if key == "nil" {
			return "nil"
		}
		key = typeKey(u.Elem()) + "|" + key // objects of different types are different objects, whatever the model's reference
		if name, seen := b.objs[key]; seen {
			if name == "" {
				return "nil"
			}
			return name
		}
		child := n.ptr[lo]
		if child == nil {
			// beyond collection depth: allocate a zero object
			name := b.fresh()
			b.objs[key] = name
			b.stmts = append(b.stmts, fmt.Sprintf("%s := new(%s)", name, b.typeStr(u.Elem())))
			return name
		}
		name := b.fresh()
		b.objs[key] = name
		b.stmts = append(b.stmts, fmt.Sprintf("%s := new(%s)", name, b.typeStr(u.Elem())))
		e := b.expr(child)
		b.stmts = append(b.stmts, fmt.Sprintf("*%s = %s", name, e))
		return name
	case *types.Struct:
		var fs []string
		off := lo
		for i := 0; i < u.NumFields(); i++ {
			f := u.Field(i)
			w := len(leavesOf(f.Type()))
			if f.Exported() || f.Pkg() == b.x.prog.pkg.Types {
				b.curPath = append(b.curPath, i)
				if isSyncOnce(f.Type()) {
					if t, ok := n.onces[fmt.Sprint(b.curPath)]; ok && b.val(t) != nil && b.val(t).atom == "true" {
						fs = append(fs, f.Name()+": zzFiredOnce()")
						b.needOnce = true
						b.curPath = b.curPath[:len(b.curPath)-1]
						off += w
						continue
					}
				}
				e := b.exprAt(n, f.Type(), off, off+w)
				b.curPath = b.curPath[:len(b.curPath)-1]
				if e != "" && !isZeroLit(e) {
					fs = append(fs, f.Name()+": "+e)
				}
			}
			off += w
		}
		return b.typeStr(t) + "{" + strings.Join(fs, ", ") + "}"
	case *types.Interface:
		tag, _ := sxInt(b.val(n.L[lo]))
		if tag == 0 {
			return "nil"
		}
		if it, isFake := b.x.prog.fakeIface[int(tag)]; isFake {
			key, ok := b.refKey(b.val(n.L[lo+1]))
			if !ok || key == "nil" {
				key = "nilpayload" // the model left the payload open: any object will do
			}
			return b.fakeFor(key, it, nil).name
		}
		dt, ok := b.x.prog.typeByID[int(tag)]
		if !ok {
			b.fail = fmt.Sprintf("interface tag %d is not a known type", tag)
			return "nil"
		}
		for k, c := range n.ifaceT[lo] {
			if types.Identical(c, dt) {
				child := n.iface[lo][k]
				if pt, isPtr := dt.(*types.Pointer); isPtr {
					key, ok := b.refKey(b.val(n.L[lo+1]))
					if !ok || key == "nil" {
						return "(" + b.typeStr(dt) + ")(nil)"
					}
					key = typeKey(pt.Elem()) + "|" + key
					if name, seen := b.objs[key]; seen && name != "" {
						return name
					}
					name := b.fresh()
					b.objs[key] = name
					b.stmts = append(b.stmts, fmt.Sprintf("%s := new(%s)", name, b.typeStr(pt.Elem())))
					e := b.expr(child)
					b.stmts = append(b.stmts, fmt.Sprintf("*%s = %s", name, e))
					return name
				}
				return b.expr(child)
			}
		}
		b.fail = "dynamic type " + dt.String() + " does not implement the interface or was not collected"
		return "nil"
	case *types.Slice:
		key, ok := b.refKey(b.val(n.L[lo]))
		if !ok || key == "nil" {
			return "nil"
		}
		ln, _ := sxInt(b.val(n.L[lo+2]))
		if ln > maxSliceElems {
			b.fail = fmt.Sprintf("slice of length %d exceeds replay bound", ln)
			return "nil"
		}
		var es []string
		for k := 0; k < int(ln) && k < len(n.elems[lo]); k++ {
			es = append(es, b.expr(n.elems[lo][k]))
		}
		if len(n.elems[lo]) == 0 && ln > 0 {
			b.fail = "slice elements not collected"
		}
		return b.typeStr(t) + "{" + strings.Join(es, ", ") + "}"
	case *types.Signature:
		key, ok := b.refKey(b.val(n.L[lo]))
		if !ok || key == "nil" {
			return "nil"
		}
		fo := b.fakeFor(key, nil, u)
		return fo.name + "_fn"
	case *types.Map, *types.Chan:
		return "nil"
	}
	b.fail = "type not supported in replay: " + t.String()
	return "nil"
}

func isZeroLit(e string) bool { return e == "nil" || e == `""` || e == "0" || e == "false" }

// ---- printing a contract clause as Go -----------------------------------------------

type clausePrinter struct {
	x      *Exec
	olds   []string // statements computing old() values, emitted before the call
	nOld   int
	fail   string
	inOld  bool
	needStrings bool
	needReflect bool
	usedGlob bool
	looseEq bool // print == / != as zzEq(...) (run-time checks inside fakes)
	fakes  bool // ghost fields of modelled interfaces / ghost globals are real state of the fakes
}

func (p *clausePrinter) print(e ast.Expr) string {
	switch e := e.(type) {
	case *ast.ParenExpr:
		return "(" + p.print(e.X) + ")"
	case *ast.Ident:
		if _, ok := p.x.prog.spec.GlobalGhosts[e.Name]; ok {
			if !p.fakes {
				p.fail = "ghost global " + e.Name
			}
			p.usedGlob = true
			return "zzG_" + e.Name
		}
		return e.Name
	case *ast.BasicLit:
		return e.Value
	case *ast.SelectorExpr:
		if owner := p.ghostOwner(e.Sel.Name); owner != "" {
			return "zzGhost_" + sanitize(owner) + "(" + p.print(e.X) + ").g_" + e.Sel.Name
		}
		return p.print(e.X) + "." + e.Sel.Name
	case *ast.StarExpr:
		return "(*" + p.print(e.X) + ")"
	case *ast.UnaryExpr:
		return "(" + e.Op.String() + p.print(e.X) + ")"
	case *ast.BinaryExpr:
		if p.looseEq && (e.Op == token.EQL || e.Op == token.NEQ) {
			// contract equality (slices by position, typed nils, mixed integer types) through reflection
			p.needReflect = true
			neg := ""
			if e.Op == token.NEQ {
				neg = "!"
			}
			return "(" + neg + "zzEq(" + p.print(e.X) + ", " + p.print(e.Y) + "))"
		}
		return "(" + p.print(e.X) + " " + e.Op.String() + " " + p.print(e.Y) + ")"
	case *ast.CompositeLit:
		var els []string
		for _, el := range e.Elts {
			if kv, ok := el.(*ast.KeyValueExpr); ok {
				els = append(els, exprString(kv.Key)+": "+p.print(kv.Value))
			} else {
				els = append(els, p.print(el))
			}
		}
		return "(" + exprString(e.Type) + "{" + strings.Join(els, ", ") + "})"
	case *ast.IndexExpr:
		return p.print(e.X) + "[" + p.print(e.Index) + "]"
	case *ast.TypeAssertExpr:
		return p.print(e.X) + ".(" + exprString(e.Type) + ")"
	case *ast.CallExpr:
		name := ""
		if id, ok := e.Fun.(*ast.Ident); ok {
			name = id.Name
		}
		switch name {
		case "imp_":
			return "(!(" + p.print(e.Args[0]) + ") || (" + p.print(e.Args[1]) + "))"
		case "iff_":
			return "((" + p.print(e.Args[0]) + ") == (" + p.print(e.Args[1]) + "))"
		case "ite":
			c := p.print(e.Args[0])
			return "((" + c + ") && (" + p.print(e.Args[1]) + ") || !(" + c + ") && (" + p.print(e.Args[2]) + "))"
		case "fresh", "allocated":
			return "true"
		case "old":
			if p.inOld {
				return p.print(e.Args[0])
			}
			p.inOld = true
			inner := p.print(e.Args[0])
			p.inOld = false
			p.nOld++
			v := fmt.Sprintf("old%d", p.nOld)
			p.olds = append(p.olds, fmt.Sprintf("%s := %s", v, inner))
			return v
		case "istype":
			return "func() bool { _, ok := " + p.print(e.Args[0]) + ".(" + exprString(e.Args[1]) + "); return ok }()"
		case "len":
			return "len(" + p.print(e.Args[0]) + ")"
		case "box":
			return "interface{}(" + p.print(e.Args[0]) + ")"
		case "payloadnil":
			p.needReflect = true
			return "func(v interface{}) bool { rv := reflect.ValueOf(v); return v != nil && rv.Kind() == reflect.Ptr && rv.IsNil() }(" + p.print(e.Args[0]) + ")"
		case "inset":
			if c, ok := e.Args[0].(*ast.CallExpr); ok {
				if id, ok := c.Fun.(*ast.Ident); ok && id.Name == "elems" && len(c.Args) == 1 {
					return "func() bool { for _, zzE := range " + p.print(c.Args[0]) + " { if zzE == " + p.print(e.Args[1]) + " { return true } }; return false }()"
				}
			}
			p.fail = "cannot print inset over an abstract set"
			return "true"
		case "strcontains":
			p.needStrings = true
			return "strings.Contains(string(" + p.print(e.Args[0]) + "), string(" + p.print(e.Args[1]) + "))"
		case "strbefore":
			p.needStrings = true
			return "func(s, sep string) string { if i := strings.Index(s, sep); i >= 0 { return s[:i] }; return s }(string(" + p.print(e.Args[0]) + "), string(" + p.print(e.Args[1]) + "))"
		case "strafter":
			p.needStrings = true
			return "func(s, sep string) string { if i := strings.Index(s, sep); i >= 0 { return s[i+len(sep):] }; return \"\" }(string(" + p.print(e.Args[0]) + "), string(" + p.print(e.Args[1]) + "))"
		}
		if sf, ok := p.x.prog.spec.SpecFns[name]; ok {
			var args []string
			for _, a := range e.Args {
				args = append(args, p.print(a))
			}
			return p.specFnLit(sf) + "(" + strings.Join(args, ", ") + ")"
		}
		if p.x.lookupTypeName(name) != nil && len(e.Args) == 1 {
			return name + "(" + p.print(e.Args[0]) + ")"
		}
		p.fail = "cannot print call to " + name
		return "true"
	}
	p.fail = fmt.Sprintf("cannot print %T", e)
	return "true"
}

// ghostOwner: the modelled interface that declares a ghost field of this name
// (only when exactly one does and no printable struct field could be meant).
func (p *clausePrinter) ghostOwner(name string) string {
	owner := ""
	for o, gs := range p.x.prog.spec.Ghosts {
		t := p.x.prog.lookupType(o)
		if t == nil {
			if strings.Contains(o, ".") {
				func() {
					defer func() { recover() }()
					t = p.x.parseType(o)
				}()
			}
		}
		if t == nil || !isInterface(t) {
			continue
		}
		for _, g := range gs {
			if g.Name == name {
				if owner != "" && owner != o {
					return ""
				}
				owner = o
			}
		}
	}
	if owner != "" && !p.fakes {
		p.fail = "ghost field " + name + " without a fake"
	}
	return owner
}

func (p *clausePrinter) specFnLit(sf *SpecFn) string {
	var ps []string
	for _, q := range sf.Params {
		ps = append(ps, q.Name+" "+q.Type)
	}
	head := "func(" + strings.Join(ps, ", ") + ") " + sf.RetType
	if sf.Uninterp {
		if sf.GoBody == "" {
			p.fail = "uninterpreted spec fn " + sf.Name + " has no Go counterpart"
			return head + " { panic(\"uninterpreted\") }"
		}
		return head + " { return " + sf.GoBody + " }"
	}
	if sf.GoBody != "" {
		return head + " { return " + sf.GoBody + " }"
	}
	if sf.Rec {
		p.fail = "recursive spec fn " + sf.Name + " cannot be printed"
		return head + " { panic(\"recursive\") }"
	}
	// ite in result position becomes an if/else chain (its type is the function's result type)
	return head + " { " + p.tail(sf.Body.Expr, sf.RetType != "bool") + " }"
}

// tail prints an expression in result position as statements ending in return.
func (p *clausePrinter) tail(e ast.Expr, chain bool) string {
	if pe, ok := e.(*ast.ParenExpr); ok {
		return p.tail(pe.X, chain)
	}
	if c, ok := e.(*ast.CallExpr); ok && chain {
		if id, ok := c.Fun.(*ast.Ident); ok && id.Name == "ite" && len(c.Args) == 3 {
			return "if " + p.print(c.Args[0]) + " { " + p.tail(c.Args[1], chain) + " }; " + p.tail(c.Args[2], chain)
		}
	}
	return "return " + p.print(e)
}

// ---- the replay itself ---------------------------------------------------------------

func findExec(r *Report, o *Obligation) *Exec {
	for _, x := range r.execs {
		if x.d == o.decls {
			return x
		}
	}
	return nil
}

// tryReplay first replays end to end (every in-package callee runs for real); if that
// does not reproduce and the path calls contracted in-package functions, it replays
// modularly: those callees are replaced by stubs executing their contracts.
func (r *Report) tryReplay(o *Obligation, dir string, log *strings.Builder) (string, bool) {
	path, ok := r.replayOnce(o, dir, log, false)
	if ok {
		return path, true
	}
	hasFunc := false
	for n := o.events; n != nil; n = n.prev {
		if n.ev.kind == "func" {
			hasFunc = true
		}
	}
	if !hasFunc || o.Res.Status != "sat" {
		return path, false
	}
	fmt.Fprintf(log, "---- modular replay: contracted callees replaced by stubs that execute their contracts ----\n")
	p2, ok2 := r.replayOnce(o, dir, log, true)
	if ok2 {
		o.modular = true
		return p2, true
	}
	if path == "" {
		path = p2
	}
	return path, false
}

func (r *Report) replayOnce(o *Obligation, dir string, log *strings.Builder, modular bool) (string, bool) {
	if o.Res.Status != "sat" {
		return "", false
	}
	x := findExec(r, o)
	if x == nil || x.replay == nil {
		return "", false
	}
	fn := x.fn
	if fn.Parent() != nil || fn.Synthetic != "" {
		fmt.Fprintf(log, "replay: %s is a closure; no direct call possible\n", x.fname)
		return "", false
	}
	// scratch state: loads from recorded snapshots may add (valid) frame axioms
	rs := &State{x: x, heaps: map[string]*heapNode{}, alloc: "alloc_0", asms: append([]Term(nil), o.Asms...), instd: map[string]bool{},
		closures: map[string]*closureInfo{}, held: map[string]bool{}, heldW: map[string]bool{}, ghostInt: map[string]Term{}}
	if o.snap != nil {
		for k, v := range o.snap.heaps {
			rs.heaps[k] = v
		}
		rs.alloc = o.snap.alloc
	}
	// 1. collect input terms, the calls into fakes on this path, and the ghost state they carry
	var nodes []*inNode
	var plans []*evPlan
	var stubPlans []*stubPlan
	var allNodes []*inNode
	type ghost0 struct {
		tag, payload Term
		it           types.Type
		reads        []ghostRead
	}
	var ghost0s []ghost0
	var glob0 []ghostRead
	var globNames []string
	for n := range x.prog.spec.GlobalGhosts {
		globNames = append(globNames, n)
	}
	sort.Strings(globNames)
	func() {
		defer func() {
			if rec := recover(); rec != nil {
				fmt.Fprintf(log, "replay: collecting inputs failed: %v\n", rec)
				nodes = nil
			}
		}()
		for _, p := range x.replay.Params {
			n := x.collect(p.Val, 3)
			nodes = append(nodes, n)
			allNodes = append(allNodes, n)
		}
		// initial ghost state of every interface value in the inputs that may be a fake
		var walk func(n *inNode)
		seen := map[*inNode]bool{}
		walk = func(n *inNode) {
			if n == nil || seen[n] {
				return
			}
			seen[n] = true
			for i, it := range n.fake {
				g := ghost0{tag: n.L[i], payload: n.L[i+1], it: it}
				for _, gf := range x.ghostFieldsOf(it) {
					v, ok := x.evalIn(rs, x.entry, "zzr."+gf.Name, map[string]Val{"zzr": {T: it, L: []Term{n.L[i], n.L[i+1]}}})
					if ok && simpleGhostType(v.T) {
						gn := x.collectWith(func(a Term, t types.Type) Val { return rs.loadValIn(x.entry, a, t) }, v, 2)
						g.reads = append(g.reads, ghostRead{field: gf, node: gn})
						allNodes = append(allNodes, gn)
					}
				}
				ghost0s = append(ghost0s, g)
			}
			for _, c := range n.ptr {
				walk(c)
			}
			for _, cs := range n.iface {
				for _, c := range cs {
					walk(c)
				}
			}
			for _, cs := range n.elems {
				for _, c := range cs {
					walk(c)
				}
			}
		}
		for _, n := range nodes {
			walk(n)
		}
		for _, gname := range globNames {
			gf := x.prog.spec.GlobalGhosts[gname]
			if v, ok := x.evalIn(rs, x.entry, gname, nil); ok && simpleGhostType(v.T) {
				gn := x.collectWith(func(a Term, t types.Type) Val { return rs.loadValIn(x.entry, a, t) }, v, 2)
				glob0 = append(glob0, ghostRead{field: gf, node: gn})
				allNodes = append(allNodes, gn)
			}
		}
		for _, ev := range eventsOldestFirst(o.events) {
			ev := ev
			if ev.kind == "func" {
				if !modular {
					continue
				}
				sp := &stubPlan{ev: ev}
				load := func(a Term, t types.Type) Val { return rs.loadValIn(ev.post, a, t) }
				for i := 0; i < ev.sig.Results().Len(); i++ {
					lo, hi := tupleRange(ev.sig.Results(), i)
					rn := x.collectWith(load, Val{T: ev.sig.Results().At(i).Type(), L: ev.res.L[lo:hi]}, 2)
					sp.res = append(sp.res, rn)
					allNodes = append(allNodes, rn)
				}
				sp.mods = x.stubMods(rs, ev)
				for _, m := range sp.mods {
					allNodes = append(allNodes, m.node)
				}
				stubPlans = append(stubPlans, sp)
				continue
			}
			pl := &evPlan{ev: ev, recvT: ev.recv.L}
			load := func(a Term, t types.Type) Val { return rs.loadValIn(ev.post, a, t) }
			for i := 0; i < ev.sig.Results().Len(); i++ {
				lo, hi := tupleRange(ev.sig.Results(), i)
				rn := x.collectWith(load, Val{T: ev.sig.Results().At(i).Type(), L: ev.res.L[lo:hi]}, 2)
				pl.res = append(pl.res, rn)
				allNodes = append(allNodes, rn)
			}
			if ev.kind == "method" && isInterface(ev.recv.T) {
				for _, gf := range x.ghostFieldsOf(ev.recv.T) {
					v, ok := x.evalIn(rs, ev.post, "zzr."+gf.Name, map[string]Val{"zzr": ev.recv})
					if ok && simpleGhostType(v.T) {
						gn := x.collectWith(load, v, 2)
						pl.ghosts = append(pl.ghosts, ghostRead{field: gf, node: gn})
						allNodes = append(allNodes, gn)
					}
				}
			}
			for _, gname := range globNames {
				gf := x.prog.spec.GlobalGhosts[gname]
				if v, ok := x.evalIn(rs, ev.post, gname, nil); ok && simpleGhostType(v.T) {
					gn := x.collectWith(load, v, 2)
					pl.globs = append(pl.globs, ghostRead{field: gf, node: gn})
					allNodes = append(allNodes, gn)
				}
			}
			plans = append(plans, pl)
		}
	}()
	if nodes == nil {
		fmt.Fprintf(log, "replay: inputs of %s cannot be reconstructed\n", x.fname)
		return "", false
	}
	var terms []Term
	for _, n := range allNodes {
		n.terms(&terms)
	}
	for _, pl := range plans {
		terms = append(terms, pl.recvT...)
	}
	// restrict interface tags of the inputs to realisable dynamic types
	asms := append([]Term(nil), rs.asms...)
	var restrict func(n *inNode)
	rseen := map[*inNode]bool{}
	restrict = func(n *inNode) {
		if n == nil || rseen[n] {
			return
		}
		rseen[n] = true
		for i := range leavesOf(n.T) {
			if leavesOf(n.T)[i].Kind != LkTag {
				continue
			}
			alts := []Term{tEq(n.L[i], "0")}
			if it, ok := n.fake[i]; ok {
				// a value of a modelled interface is replayed by a scripted fake: the path was
				// explored against the interface contract, not against a particular implementation
				alts = append(alts, tEq(n.L[i], tInt(int64(x.prog.fakeTag(it)))))
			} else {
				for _, c := range n.ifaceT[i] {
					alts = append(alts, tEq(n.L[i], tInt(int64(x.prog.typeID(c)))))
				}
			}
			if len(n.ifaceT[i]) == 0 && n.fake[i] == nil {
				continue // nothing known about the implementations: leave it to the model
			}
			asms = append(asms, tOr(alts...))
		}
		for i, es := range n.elems {
			asms = append(asms, fmt.Sprintf("(<= %s %d)", n.L[i+2], maxSliceElems))
			// the element-set abstraction of a concrete short slice is exactly the set of its elements
			// (the engine only knows "an element read is a member"; a replayed slice is fully known)
			if len(es) > 0 && len(es[0].L) == 1 && len(leavesOf(es[0].T)) == 1 && leavesOf(es[0].T)[0].Sort == "String" {
				x.d.DeclareFun("elems", []string{"Ref", "Int", "Int"}, "(Array String Bool)")
				set := "((as const (Array String Bool)) false)"
				for k := 0; k <= len(es); k++ {
					asms = append(asms, tImp(fmt.Sprintf("(= %s %d)", n.L[i+2], k), tEq("(elems "+n.L[i]+" "+n.L[i+1]+" "+n.L[i+2]+")", set)))
					if k < len(es) {
						set = tStore(set, es[k].L[0], "true")
					}
				}
			}
		}
		for _, c := range n.ptr {
			restrict(c)
		}
		for _, cs := range n.iface {
			for _, c := range cs {
				restrict(c)
			}
		}
		for _, cs := range n.elems {
			for _, c := range cs {
				restrict(c)
			}
		}
	}
	for _, n := range allNodes {
		restrict(n)
	}
	// deduplicate terms
	seenT := map[string]bool{}
	var uniq []Term
	for _, t := range terms {
		if !seenT[t] {
			seenT[t] = true
			uniq = append(uniq, t)
		}
	}
	sort.Strings(uniq)
	file := filepath.Join(r.rc.outDir, "smt", r.rc.prop, "replay_"+fileBase(o.Name)+".smt2")
	var res *SolveResult
	firstIter := false
	if len(o.firstIter) > 0 {
		// prefer a model in which every loop head on the path is reached for the first time: then the
		// real run, which starts at the first iteration, can follow the path (otherwise the script
		// covers "some later iteration" and the replay will usually diverge)
		res = solve(o.decls.Query(append(append([]Term(nil), asms...), o.firstIter...), o.Goal, uniq), file, r.rc.timeout, r.rc.seed, false)
		if res.Status == "sat" {
			firstIter = true
			fmt.Fprintf(log, "replay: the model takes every loop on the path in its first iteration\n")
		}
	}
	if !firstIter {
		res = solve(o.decls.Query(asms, o.Goal, uniq), file, r.rc.timeout, r.rc.seed, false)
	}
	if res.Status != "sat" {
		fmt.Fprintf(log, "replay: no model with realisable inputs (%s)\n", res.Status)
		return "", false
	}
	vals := map[string]*sx{}
	ms := parseSx(res.Model)
	if len(ms) > 0 && ms[0].isL {
		for _, pr := range ms[0].list {
			if pr.isL && len(pr.list) == 2 {
				vals[pr.list[0].String()] = pr.list[1]
			}
		}
	}
	// the solver echoes terms in its own printing; index by request order instead
	if len(ms) > 0 && ms[0].isL && len(ms[0].list) == len(uniq) {
		for i, pr := range ms[0].list {
			if pr.isL && len(pr.list) == 2 {
				vals[uniq[i]] = pr.list[1]
			}
		}
	}
	b := &goBuilder{x: x, vals: vals, objs: map[string]string{}, imports: map[string]bool{"testing": true}}
	var argNames []string
	for i, p := range x.replay.Params {
		e := b.expr(nodes[i])
		name := p.Name
		if name == "" || name == "_" {
			name = fmt.Sprintf("arg%d", i)
		}
		b.stmts = append(b.stmts, fmt.Sprintf("var %s %s = %s", name, b.typeStr(p.Type), e))
		b.stmts = append(b.stmts, "_ = "+name)
		if len(x.spec.Params) == len(x.replay.Params) && x.spec.Params[i] != name {
			// the contract pins another name for this parameter
			b.stmts = append(b.stmts, fmt.Sprintf("%s := %s", x.spec.Params[i], name), "_ = "+x.spec.Params[i])
		}
		argNames = append(argNames, name)
	}
	// 1b. the scripts of the fakes
	var ghostInit []string
	for _, g := range ghost0s {
		tag, _ := sxInt(b.val(g.tag))
		if _, isFake := x.prog.fakeIface[int(tag)]; !isFake {
			continue
		}
		key, ok := b.refKey(b.val(g.payload))
		if !ok || key == "nil" {
			continue
		}
		fo := b.fakeFor(key, g.it, nil)
		for _, gr := range g.reads {
			ghostInit = append(ghostInit, fmt.Sprintf("%s.g_%s = %s", fo.name, gr.field.Name, b.expr(gr.node)))
		}
	}
	var globInit []string
	for _, gr := range glob0 {
		globInit = append(globInit, fmt.Sprintf("zzG_%s = %s", gr.field.Name, b.expr(gr.node)))
	}
	for _, pl := range plans {
		var fo *fakeObj
		mname := "call"
		if pl.ev.kind == "method" {
			tag, _ := sxInt(b.val(pl.recvT[0]))
			it, isFake := x.prog.fakeIface[int(tag)]
			if !isFake {
				continue
			}
			key, ok := b.refKey(b.val(pl.recvT[1]))
			if !ok || key == "nil" {
				continue
			}
			fo = b.fakeFor(key, it, nil)
			mname = pl.ev.key[strings.LastIndex(pl.ev.key, ".")+1:]
		} else {
			key, ok := b.refKey(b.val(pl.recvT[0]))
			if !ok || key == "nil" {
				continue
			}
			fo = b.fakeFor(key, nil, pl.ev.sig)
		}
		var rs2 []string
		for _, rn := range pl.res {
			rs2 = append(rs2, "("+b.typeStr(rn.T)+")("+b.expr(rn)+")")
		}
		var after []string
		for _, gr := range pl.ghosts {
			after = append(after, fmt.Sprintf("%s.g_%s = %s", fo.name, gr.field.Name, b.expr(gr.node)))
		}
		for _, gr := range pl.globs {
			after = append(after, fmt.Sprintf("zzGLOB zzG_%s = %s", gr.field.Name, b.expr(gr.node)))
		}
		fo.script = append(fo.script, fmt.Sprintf("{m: %q, res: []interface{}{%s}, after: func() { %s }}", mname, strings.Join(rs2, ", "), strings.Join(after, "; ")))
		_ = globInit
	}
	stubs := map[string]*stubInfo{}
	var callScript []string
	for _, sp := range stubPlans {
		label := sp.ev.key
		si := stubs[x.prog.relName(sp.ev.fn)]
		if si == nil {
			si = &stubInfo{name: fmt.Sprintf("zzStub%d_%s", len(stubs)+1, sanitize(sp.ev.fn.Name())), fn: sp.ev.fn, fs: sp.ev.fs, label: label, nmods: sp.mods}
			stubs[x.prog.relName(sp.ev.fn)] = si
		}
		var vs []string
		for _, rn := range sp.res {
			vs = append(vs, "("+b.typeStr(rn.T)+")("+b.expr(rn)+")")
		}
		// the effects in the order of the stub's static list
		for _, m := range si.nmods {
			val := "nil"
			for _, m2 := range sp.mods {
				if m2.text == m.text {
					if m2.once {
						v := b.val(m2.node.L[0])
						val = "false"
						if v != nil && v.atom == "true" {
							val = "true"
						}
					} else {
						val = "(" + b.typeStr(m2.T) + ")(" + b.expr(m2.node) + ")"
					}
				}
			}
			vs = append(vs, val)
		}
		callScript = append(callScript, fmt.Sprintf("{m: %q, res: []interface{}{%s}}", si.label, strings.Join(vs, ", ")))
	}
	if modular && o.Kind == "callpre" {
		// the callee whose precondition fails has no event yet on this path: stub it as well
		if i := strings.LastIndex(o.Detail, ":"); i > 0 {
			label := o.Detail[:i]
			if cf, fs := x.prog.funcs[label], x.prog.spec.Funcs[label]; cf != nil && fs != nil && stubs[label] == nil {
				stubs[label] = &stubInfo{name: fmt.Sprintf("zzStub%d_%s", len(stubs)+1, sanitize(cf.Name())), fn: cf, fs: fs, label: label}
			}
		}
	}
	if b.fail != "" {
		fmt.Fprintf(log, "replay: %s\n", b.fail)
		return "", false
	}
	// 2. the check
	cp := &clausePrinter{x: x, fakes: len(b.fakes) > 0 || len(globNames) > 0}
	check := ""
	safety := o.Kind != "post"
	isLemma := x.spec.Kind == "lemma"
	if isLemma {
		// a lemma is replayed as a whole: run its body on the model's input and evaluate its conclusion
		var cs []string
		for _, c := range x.spec.Ens {
			cs = append(cs, "("+cp.print(c.Expr)+")")
		}
		if cp.fail != "" || len(cs) == 0 {
			fmt.Fprintf(log, "replay: %s\n", cp.fail)
			return "", false
		}
		check = strings.Join(cs, " && ")
		safety = false
	} else if o.Kind == "post" {
		var cl *Clause
		for k, c := range x.spec.Ens {
			d := fmt.Sprint(k)
			if c.Label != "" {
				d = c.Label
			}
			if d == o.Detail || strings.HasPrefix(o.Detail, d+".") {
				cl = c
			}
		}
		if cl == nil {
			return "", false
		}
		check = cp.print(cl.Expr)
		if cp.fail != "" {
			fmt.Fprintf(log, "replay: %s\n", cp.fail)
			return "", false
		}
	} else if o.Kind == "callpre" && modular {
		safety = true // observed by the stub of the callee
	} else if !isSafetyKind(o.Kind) {
		fmt.Fprintf(log, "replay: an obligation of kind %q is inside the function and cannot be observed from a call\n", o.Kind)
		return "", false
	}
	// 3. the call
	sig := fn.Signature
	var call string
	if sig.Recv() != nil {
		call = fmt.Sprintf("%s.%s(%s)", argNames[0], fn.Name(), strings.Join(argNames[1:], ", "))
	} else {
		call = fmt.Sprintf("%s(%s)", fn.Name(), strings.Join(argNames, ", "))
	}
	if sig.Variadic() {
		call = call[:len(call)-1] + "...)"
	}
	var resNames []string
	rn := resultNames(sig, x.spec.Results)
	for i := range rn {
		resNames = append(resNames, rn[i])
	}
	testName := "TestReplay_" + sanitize(o.Name)
	var src bytes.Buffer
	fmt.Fprintf(&src, "// Replay of failed obligation %s (property %s)\n// clause: %s\n// at: %s\n// solver: %s\n", o.Name, r.rc.prop, o.Desc, o.Pos, res.Solver)
	fmt.Fprintf(&src, "package %s\n\nimport (\n", x.prog.pkg.Types.Name())
	if cp.needStrings {
		b.imports["strings"] = true
	}
	if cp.needReflect {
		b.imports["reflect"] = true
	}
	// the fake types mention the parameter types of the interfaces' methods
	fakeDecls := b.fakeTypeDecls()
	var stubDecls strings.Builder
	for _, k := range sortedStubNames(stubs) {
		stubDecls.WriteString(b.stubDecl(stubs[k]))
	}
	needRuntime := len(b.fakes) > 0 || len(stubs) > 0
	if needRuntime {
		b.imports["reflect"] = true // zzEq
	}
	var fnDecls []string
	for _, k := range b.fakeOrd {
		fo := b.fakes[k]
		if fo.sig == nil {
			continue
		}
		var ps, rsT, outs []string
		for i := 0; i < fo.sig.Params().Len(); i++ {
			ps = append(ps, fmt.Sprintf("a%d %s", i, b.typeStr(fo.sig.Params().At(i).Type())))
		}
		body := fmt.Sprintf("r := %s.next(\"call\"); _ = r; ", fo.name)
		for i := 0; i < fo.sig.Results().Len(); i++ {
			t := b.typeStr(fo.sig.Results().At(i).Type())
			rsT = append(rsT, t)
			body += fmt.Sprintf("r%d, _ := r[%d].(%s); ", i, i, t)
			outs = append(outs, fmt.Sprintf("r%d", i))
		}
		if len(outs) > 0 {
			body += "return " + strings.Join(outs, ", ")
		}
		fnDecls = append(fnDecls, fmt.Sprintf("%s := &zzScript{who: %q}\n\t%s_fn := func(%s) (%s) { %s }\n\t_ = %s_fn", fo.name, "callback "+fo.name, fo.name, strings.Join(ps, ", "), strings.Join(rsT, ", "), body, fo.name))
	}
	var imps []string
	for p := range b.imports {
		imps = append(imps, p)
	}
	sort.Strings(imps)
	for _, p := range imps {
		fmt.Fprintf(&src, "\t%q\n", p)
	}
	fmt.Fprintf(&src, ")\n")
	if needRuntime {
		src.WriteString(fakeRuntime)
		src.WriteString(fakeDecls)
	}
	if len(stubs) > 0 {
		src.WriteString("\nvar zzCalls = &zzScript{who: \"contracted callees\"}\nvar zzPreFailed []string\n\n")
		src.WriteString(stubDecls.String())
	}
	if b.needOnce {
		src.WriteString("\n// a sync.Once that has already fired (the contracts' ghost field `fired`)\nfunc zzFiredOnce() (o sync.Once) {\n\to.Do(func() {})\n\treturn\n}\n")
	}
	for _, gname := range globNames {
		if !cp.usedGlob && !b.usedGlob {
			break
		}
		gf := x.prog.spec.GlobalGhosts[gname]
		func() {
			defer func() { recover() }()
			if t := x.parseType(gf.Type); simpleGhostType(t) {
				fmt.Fprintf(&src, "var zzG_%s %s\n", gname, b.typeStr(t))
			}
		}()
	}
	fmt.Fprintf(&src, "\nfunc %s(zzT *testing.T) {\n", testName)
	for _, k := range b.fakeOrd {
		fo := b.fakes[k]
		if fo.iface != nil {
			fmt.Fprintf(&src, "\t%s := &%s{}\n\t%s.s.who = %q\n", fo.name, fakeName(x.prog, fo.iface), fo.name, fo.name+" ("+typeRelName(x.prog, fo.iface)+")")
		}
	}
	for _, d := range fnDecls {
		fmt.Fprintf(&src, "\t%s\n", d)
	}
	for _, s := range b.stmts {
		fmt.Fprintf(&src, "\t%s\n", s)
	}
	for _, k := range b.fakeOrd {
		fo := b.fakes[k]
		target := fo.name + ".s.evs"
		if fo.iface == nil {
			target = fo.name + ".evs"
		}
		fmt.Fprintf(&src, "\t%s = []zzEv{\n", target)
		for _, e := range fo.script {
			if cp.usedGlob || b.usedGlob {
				e = strings.ReplaceAll(e, "zzGLOB ", "")
			} else {
				e = stripGlob(e)
			}
			fmt.Fprintf(&src, "\t\t%s,\n", e)
		}
		fmt.Fprintf(&src, "\t}\n")
	}
	if len(stubs) > 0 {
		fmt.Fprintf(&src, "\tzzCalls.i, zzPreFailed = 0, nil\n\tzzCalls.evs = []zzEv{\n")
		for _, e := range callScript {
			fmt.Fprintf(&src, "\t\t%s,\n", e)
		}
		fmt.Fprintf(&src, "\t}\n")
	}
	for _, s := range ghostInit {
		fmt.Fprintf(&src, "\t%s\n", s)
	}
	if cp.usedGlob || b.usedGlob {
		for _, s := range globInit {
			fmt.Fprintf(&src, "\t%s\n", s)
		}
	}
	for _, s := range cp.olds {
		fmt.Fprintf(&src, "\t%s\n", s)
	}
	if o.Kind == "callpre" && modular {
		want := o.Detail
		if i := strings.LastIndex(want, "."); i > strings.LastIndex(want, ":") {
			want = want[:i] // drop the conjunct ordinal
		}
		fmt.Fprintf(&src, "\tdefer func() {\n\t\tfor _, zzP := range zzPreFailed {\n\t\t\tif zzP == %q {\n\t\t\t\tzzT.Errorf(\"REPLAY-VIOLATION obligation %s: the real body calls the callee with its precondition %%s false\", zzP)\n\t\t\t}\n\t\t}\n\t}()\n", want, o.Name)
	}
	fmt.Fprintf(&src, "\tdefer func() {\n\t\tif zzR := recover(); zzR != nil {\n")
	if needRuntime {
		fmt.Fprintf(&src, "\t\t\tif d, ok := zzR.(zzDivergence); ok {\n\t\t\t\tzzT.Skipf(\"REPLAY-DIVERGED: %%s\", d.msg)\n\t\t\t}\n")
	}
	if o.Kind == "callpre" {
		// only the callee's stub can witness a violated precondition; a panic on the way is something else
		fmt.Fprintf(&src, "\t\t\tzzT.Skipf(\"REPLAY-DIVERGED: panic before the call was reached: %%v\", zzR)\n\t\t}\n\t}()\n")
	} else {
		fmt.Fprintf(&src, "\t\t\tzzT.Fatalf(\"REPLAY-VIOLATION obligation %s: panic: %%v\", zzR)\n\t\t}\n\t}()\n", o.Name)
	}
	if len(resNames) > 0 {
		fmt.Fprintf(&src, "\t%s := %s\n", strings.Join(resNames, ", "), call)
		for _, n := range resNames {
			fmt.Fprintf(&src, "\t_ = %s\n", n)
		}
		// aliases used by contracts
		if len(resNames) >= 1 && resNames[0] != "result" {
			fmt.Fprintf(&src, "\tresult := %s\n\t_ = result\n", resNames[0])
		}
		last := sig.Results().At(sig.Results().Len() - 1)
		if isErrorType(last.Type()) && resNames[len(resNames)-1] != "err" {
			fmt.Fprintf(&src, "\terr := %s\n\t_ = err\n", resNames[len(resNames)-1])
		}
	} else {
		fmt.Fprintf(&src, "\t%s\n", call)
	}
	if !safety {
		fmt.Fprintf(&src, "\tif !(%s) {\n\t\tzzT.Fatalf(\"REPLAY-VIOLATION obligation %s: clause is false on the real code\")\n\t}\n", check, o.Name)
	}
	fmt.Fprintf(&src, "}\n")
	suffix := ""
	extra := map[string]string{}
	if modular {
		suffix = "_modular"
		file, data, err := b.rewriteCallers(fn, stubs)
		if err != nil {
			fmt.Fprintf(log, "replay: cannot stub the callees: %v\n", err)
			return "", false
		}
		rw := filepath.Join(dir, fileBase(o.Name)+"_modular_src.go")
		os.WriteFile(rw, data, 0o644)
		extra[file] = rw
	}
	gopath := filepath.Join(dir, fileBase(o.Name)+suffix+"_test.go")
	os.WriteFile(gopath, src.Bytes(), 0o644)
	out, failed := runReplayTestWith(r.rc.repo, gopath, testName, dir, isLemma, extra)
	fmt.Fprintf(log, "replay test: %s\nreplay output:\n%s\n", gopath, indent(strings.TrimSpace(out), "  "))
	if len(b.unchecked) > 0 {
		fmt.Fprintf(log, "replay: contract clauses of the scripted fakes that are NOT checked at run time (the model values are taken on trust):\n")
		seenU := map[string]bool{}
		for _, u := range b.unchecked {
			if !seenU[u] {
				seenU[u] = true
				fmt.Fprintf(log, "  %s\n", u)
			}
		}
	}
	if len(o.firstIter) > 0 && !firstIter {
		fmt.Fprintf(log, "replay: the path is inside a loop and needs a later iteration; the script covers the calls of one arbitrary iteration\n")
	}
	if o.leftLoops {
		fmt.Fprintf(log, "replay: the path ran through an earlier loop; the model only knows its invariant, the real run executes it\n")
	}
	reproduced := failed && strings.Contains(out, "REPLAY-VIOLATION")
	if reproduced && modular {
		fmt.Fprintf(log, "replay: REPRODUCED on the real body of %s (its contracted callees replaced by stubs that execute their contracts; overlay source: %s)\n", x.fname, extra)
	} else if reproduced {
		fmt.Fprintf(log, "replay: REPRODUCED on the real code\n")
	} else if strings.Contains(out, "REPLAY-DIVERGED") {
		fmt.Fprintf(log, "replay: the real execution took a different sequence of calls than the model (not reproduced)\n")
	} else {
		fmt.Fprintf(log, "replay: not reproduced\n")
	}
	return gopath, reproduced
}

// stripGlob removes the ghost-global updates (marked zzGLOB) from a script entry.
func stripGlob(e string) string {
	i := strings.Index(e, "after: func() { ")
	if i < 0 {
		return e
	}
	head, body := e[:i+len("after: func() { ")], e[i+len("after: func() { "):]
	body = strings.TrimSuffix(body, " }}")
	var keep []string
	for _, st := range strings.Split(body, "; ") {
		if !strings.HasPrefix(st, "zzGLOB ") && st != "" {
			keep = append(keep, st)
		}
	}
	return head + strings.Join(keep, "; ") + " }}"
}

func isSafetyKind(k string) bool {
	switch k {
	case "nilderef", "index", "slicebounds", "typeassert", "nilmap", "nilinvoke", "nilcall", "divzero", "panic", "callnopanic", "closenil", "closeclosed":
		return true
	}
	return false
}

func runReplayTest(repo, gofile, testName, dir string, withTag bool) (string, bool) {
	return runReplayTestWith(repo, gofile, testName, dir, withTag, nil)
}

func runReplayTestWith(repo, gofile, testName, dir string, withTag bool, extra map[string]string) (string, bool) {
	ov := map[string]map[string]string{"Replace": {filepath.Join(repo, "zz_limevc_replay_test.go"): gofile}}
	for k, v := range extra {
		ov["Replace"][k] = v
	}
	ovb, _ := json.Marshal(ov)
	ovpath := filepath.Join(dir, "overlay_"+testName+".json")
	os.WriteFile(ovpath, ovb, 0o644)
	ctx, cancel := context.WithTimeout(context.Background(), 180*time.Second)
	defer cancel()
	args := []string{"test", "-overlay", ovpath, "-vet=off", "-count=1", "-timeout", "60s", "-v", "-run", "^" + testName + "$"}
	if withTag {
		args = append(args, "-tags=verif") // lemma functions live in the guarded contract file
	}
	args = append(args, ".")
	cmd := exec.CommandContext(ctx, "go", args...)
	cmd.Dir = repo
	cmd.Env = append(os.Environ(), "GOFLAGS=-mod=mod", "GOPROXY=off", "GOSUMDB=off", "GOTOOLCHAIN=local")
	var out bytes.Buffer
	cmd.Stdout = &out
	cmd.Stderr = &out
	err := cmd.Run()
	return out.String(), err != nil
}

var _ = parser.ParseExpr
var _ *ssa.Function
