package main

// Scripted fakes for replay (DESIGN.md §9.8): when a function under contract talks
// to a modelled interface (Transport, net.Conn, context.Context, handlers, ...) or
// calls a callback, the symbolic path records every such call. The replay builds,
// from the solver's model, a fake object per interface value / function value that
// answers the k-th call with the k-th result of the model and carries the ghost
// fields of the interface contract as real fields, updated to the model's values
// after each call. If the real execution makes a different sequence of calls than
// the symbolic path, the replay reports a divergence (not a violation).

import (
	"fmt"
	"go/parser"
	"go/types"
	"sort"
	"strings"
)

// modelled: the interface has method contracts (so calls on it are events).
func (x *Exec) modelled(it types.Type) bool {
	if !isInterface(it) {
		return false
	}
	if isErrorType(it) {
		return true
	}
	name := typeRelName(x.prog, it)
	for k := range x.prog.spec.Methods {
		if strings.HasPrefix(k, name+".") {
			return true
		}
	}
	return false
}

func fakeName(p *Program, it types.Type) string {
	if isErrorType(it) {
		return "zzFake_error"
	}
	return "zzFake_" + sanitize(typeRelName(p, it))
}

// fakeTag returns the type id used for the fake implementation of interface it.
func (p *Program) fakeTag(it types.Type) int {
	if p.fakeTypes == nil {
		p.fakeTypes = map[string]types.Type{}
		p.fakeIface = map[int]types.Type{}
	}
	k := fakeName(p, it)
	ft, ok := p.fakeTypes[k]
	if !ok {
		tn := types.NewTypeName(0, p.pkg.Types, k, nil)
		named := types.NewNamed(tn, types.NewStruct(nil, nil), nil)
		ft = types.NewPointer(named)
		p.fakeTypes[k] = ft
	}
	id := p.typeID(ft)
	p.fakeIface[id] = it
	return id
}

type fakeObj struct {
	name   string
	iface  types.Type       // interface faked (nil for function values)
	sig    *types.Signature // function value faked
	script []string         // Go literals of zzEv, in call order
	ghost0 []string         // initial ghost assignments
}

type ghostRead struct {
	field *GhostField
	node  *inNode
}

type evPlan struct {
	ev     *extEvent
	recvT  []Term // receiver leaves
	res    []*inNode
	ghosts []ghostRead // ghost fields of the receiver after the call
	globs  []ghostRead // global ghosts after the call
}

func simpleGhostType(t types.Type) bool {
	if _, isSet := t.(*types.Map); isSet {
		return false
	}
	switch u := t.Underlying().(type) {
	case *types.Basic, *types.Pointer, *types.Interface:
		return true
	case *types.Slice:
		_, ok := u.Elem().Underlying().(*types.Basic)
		return ok
	case *types.Struct:
		return true
	}
	return false
}

// ghostFieldsOf lists the printable ghost fields declared for an interface.
func (x *Exec) ghostFieldsOf(it types.Type) []*GhostField {
	var out []*GhostField
	for _, g := range x.prog.spec.Ghosts[typeRelName(x.prog, it)] {
		if strings.HasPrefix(strings.TrimSpace(g.Type), "set[") {
			continue
		}
		out = append(out, g)
	}
	return out
}

// evalIn evaluates a contract expression in a given heap snapshot with a scratch state.
func (x *Exec) evalIn(rs *State, sn *snapshot, src string, vars map[string]Val) (v Val, ok bool) {
	defer func() {
		if r := recover(); r != nil {
			ok = false
		}
	}()
	e, err := parser.ParseExpr(src)
	if err != nil {
		return Val{}, false
	}
	env := &Env{x: x, st: rs, cur: sn, old: sn, vars: vars, what: "replay"}
	return env.eval(e), true
}

func eventsOldestFirst(n *evNode) []*extEvent {
	var out []*extEvent
	for ; n != nil; n = n.prev {
		out = append(out, n.ev)
	}
	for i, j := 0, len(out)-1; i < j; i, j = i+1, j-1 {
		out[i], out[j] = out[j], out[i]
	}
	return out
}

// ---- Go text of the fakes ------------------------------------------------------

const fakeRuntime = `
type zzDivergence struct{ msg string }

type zzEv struct {
	m     string
	res   []interface{}
	after func()
}

type zzScript struct {
	who string
	evs []zzEv
	i   int
}

// zzEq is the contracts' equality: slices are equal when they denote the same
// position of the same backing array (or are both nil), nils are compared by
// nil-ness whatever their static type, integers by value.
func zzEq(a, b interface{}) bool {
	va, vb := reflect.ValueOf(a), reflect.ValueOf(b)
	nilish := func(v reflect.Value) bool {
		if !v.IsValid() {
			return true
		}
		switch v.Kind() {
		case reflect.Ptr, reflect.Map, reflect.Slice, reflect.Chan, reflect.Func, reflect.Interface:
			return v.IsNil()
		}
		return false
	}
	if nilish(va) || nilish(vb) {
		return nilish(va) && nilish(vb)
	}
	if va.Kind() == reflect.Slice && vb.Kind() == reflect.Slice {
		return va.Len() == vb.Len() && (va.Len() == 0 || va.Index(0).Addr().Pointer() == vb.Index(0).Addr().Pointer())
	}
	isInt := func(k reflect.Kind) bool { return k >= reflect.Int && k <= reflect.Int64 }
	if isInt(va.Kind()) && isInt(vb.Kind()) {
		return va.Int() == vb.Int()
	}
	if va.Type() != vb.Type() && va.Type().ConvertibleTo(vb.Type()) {
		va = va.Convert(vb.Type())
	}
	return va.Interface() == vb.Interface()
}

func (s *zzScript) next(m string) []interface{} {
	if s.i >= len(s.evs) {
		panic(zzDivergence{s.who + ": unscripted call of " + m})
	}
	ev := s.evs[s.i]
	if ev.m != m {
		panic(zzDivergence{s.who + ": call of " + m + " where the model calls " + ev.m})
	}
	s.i++
	if ev.after != nil {
		ev.after()
	}
	return ev.res
}
`

func (b *goBuilder) methodDecls(fo *fakeObj, tname string) string {
	var sb strings.Builder
	if fo.iface == nil {
		return ""
	}
	if isErrorType(fo.iface) {
		fmt.Fprintf(&sb, "func (zzf *%s) Error() string { return \"scripted error of \" + zzf.s.who }\n", tname)
		// scripted errors may also be asked the net.Error questions
		for _, m := range []string{"Timeout", "Temporary"} {
			fmt.Fprintf(&sb, "func (zzf *%s) %s() bool {\n\tzzr := zzf.s.next(%q)\n\tr0, _ := zzr[0].(bool)\n\treturn r0\n}\n", tname, m, m)
		}
		return sb.String()
	}
	iname := typeRelName(b.x.prog, fo.iface)
	ms := types.NewMethodSet(fo.iface)
	for i := 0; i < ms.Len(); i++ {
		m := ms.At(i).Obj().(*types.Func)
		sig := m.Type().(*types.Signature)
		fs := b.x.prog.spec.Methods[iname+"."+m.Name()]
		var ps []string
		for k := 0; k < sig.Params().Len(); k++ {
			t := b.typeStr(sig.Params().At(k).Type())
			if sig.Variadic() && k == sig.Params().Len()-1 {
				t = "..." + b.typeStr(sig.Params().At(k).Type().(*types.Slice).Elem())
			}
			ps = append(ps, fmt.Sprintf("a%d %s", k, t))
		}
		var rs []string
		for k := 0; k < sig.Results().Len(); k++ {
			rs = append(rs, b.typeStr(sig.Results().At(k).Type()))
		}
		fmt.Fprintf(&sb, "func (zzf *%s) %s(%s) (%s) {\n", tname, m.Name(), strings.Join(ps, ", "), strings.Join(rs, ", "))
		if !m.Exported() && m.Pkg() != b.x.prog.pkg.Types {
			b.fail = "interface " + fo.iface.String() + " has a foreign unexported method"
		}
		// the contract's own names for receiver, parameters and results
		resNames := make([]string, len(rs))
		for k := range rs {
			resNames[k] = fmt.Sprintf("r%d", k)
		}
		var checks, unchecked []string
		cp := &clausePrinter{x: b.x, fakes: true, looseEq: true}
		if fs != nil && len(fs.Params) == sig.Params().Len()+1 {
			fmt.Fprintf(&sb, "\tvar %s %s = zzf\n\t_ = %s\n", fs.Params[0], b.typeStr(fo.iface), fs.Params[0])
			for k := 0; k < sig.Params().Len(); k++ {
				fmt.Fprintf(&sb, "\t%s := a%d\n\t_ = %s\n", fs.Params[k+1], k, fs.Params[k+1])
			}
			if len(fs.Results) == len(rs) {
				copy(resNames, fs.Results)
			}
			for _, c := range fs.Ens {
				cp.fail = ""
				txt := cp.print(c.Expr)
				if cp.fail != "" {
					unchecked = append(unchecked, c.Text)
					continue
				}
				checks = append(checks, fmt.Sprintf("\tif !(%s) {\n\t\tpanic(zzDivergence{%q})\n\t}\n", txt, "the scripted environment does not satisfy the contract of "+iname+"."+m.Name()+": "+c.Text))
			}
			for _, o := range cp.olds {
				fmt.Fprintf(&sb, "\t%s\n", o)
			}
		}
		if cp.needStrings {
			b.imports["strings"] = true
		}
		if cp.usedGlob {
			b.usedGlob = true
		}
		// frame: ghost fields the contract does not list as modified must keep their value
		var frame []string
		if fs != nil && !fs.ModAll && !fs.ModGhosts {
			mod := map[string]bool{}
			for _, c := range fs.Mod {
				t := strings.TrimSpace(c.Text)
				if i := strings.LastIndex(t, "."); i >= 0 {
					mod[t[i+1:]] = true
				}
			}
			for _, g := range b.x.ghostFieldsOf(fo.iface) {
				if mod[g.Name] {
					continue
				}
				gt := b.x.parseType(g.Type)
				if _, isSlice := gt.Underlying().(*types.Slice); isSlice {
					continue // not comparable
				}
				if _, isStruct := gt.Underlying().(*types.Struct); isStruct {
					continue
				}
				fmt.Fprintf(&sb, "\tzzfr_%s := zzf.g_%s\n", g.Name, g.Name)
				frame = append(frame, fmt.Sprintf("\tif zzfr_%s != zzf.g_%s {\n\t\tpanic(zzDivergence{%q})\n\t}\n", g.Name, g.Name, "the scripted environment changes ghost field "+g.Name+" in "+iname+"."+m.Name()+", which does not list it as modified (a loop head on the path forgot how the value was reached)"))
			}
		}
		fmt.Fprintf(&sb, "\tzzr := zzf.s.next(%q)\n\t_ = zzr\n", m.Name())
		for _, f := range frame {
			sb.WriteString(f)
		}
		for k := range rs {
			fmt.Fprintf(&sb, "\t%s, _ := zzr[%d].(%s)\n\t_ = %s\n", resNames[k], k, rs[k], resNames[k])
		}
		// the fake checks at run time that what it was scripted to do is allowed by the interface contract
		for _, c := range checks {
			sb.WriteString(c)
		}
		for _, u := range unchecked {
			fmt.Fprintf(&sb, "\t// not checked at run time: %s\n", strings.ReplaceAll(u, "\n", " "))
			b.unchecked = append(b.unchecked, iname+"."+m.Name()+": "+u)
		}
		if len(rs) > 0 {
			fmt.Fprintf(&sb, "\treturn %s\n", strings.Join(resNames, ", "))
		}
		fmt.Fprintf(&sb, "}\n")
	}
	return sb.String()
}

// fakeTypeDecls emits one struct type per faked interface, with the ghost fields.
func (b *goBuilder) fakeTypeDecls() string {
	var sb strings.Builder
	var names []string
	byType := map[string]*fakeObj{}
	for _, fo := range b.fakes {
		if fo.iface == nil {
			continue
		}
		tn := fakeName(b.x.prog, fo.iface)
		if _, ok := byType[tn]; !ok {
			byType[tn] = fo
			names = append(names, tn)
		}
	}
	sort.Strings(names)
	for _, tn := range names {
		fo := byType[tn]
		fmt.Fprintf(&sb, "type %s struct {\n\ts zzScript\n", tn)
		for _, g := range b.x.ghostFieldsOf(fo.iface) {
			fmt.Fprintf(&sb, "\tg_%s %s\n", g.Name, b.typeStr(b.x.parseType(g.Type)))
		}
		fmt.Fprintf(&sb, "}\n")
		sb.WriteString(b.methodDecls(fo, tn))
		if !isErrorType(fo.iface) {
			it := b.typeStr(fo.iface)
			fmt.Fprintf(&sb, "func zzGhost_%s(v %s) *%s {\n\tf, _ := v.(*%s)\n\tif f == nil {\n\t\tpanic(zzDivergence{\"ghost state of a value that is not a scripted fake\"})\n\t}\n\treturn f\n}\n", sanitize(typeRelName(b.x.prog, fo.iface)), it, tn, tn)
		}
	}
	return sb.String()
}

// fakeFor returns (creating it on first use) the fake standing for the object
// the model put behind an interface value or function value.
func (b *goBuilder) fakeFor(key string, it types.Type, sig *types.Signature) *fakeObj {
	if b.fakes == nil {
		b.fakes = map[string]*fakeObj{}
	}
	k := key
	if it != nil {
		k = fakeName(b.x.prog, it) + "|" + key
	}
	if fo, ok := b.fakes[k]; ok {
		return fo
	}
	fo := &fakeObj{name: fmt.Sprintf("zzf%d", len(b.fakes)+1), iface: it, sig: sig}
	b.fakes[k] = fo
	b.fakeOrd = append(b.fakeOrd, k)
	return fo
}
