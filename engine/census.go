package main

// Syntactic census obligations (DESIGN.md §4.4, §4.7): a function may be
// referenced, or a struct field stored to, only from the listed functions.
// Decided on the SSA of the whole package, without a solver.

import (
	"fmt"
	"go/types"
	"sort"
	"strings"

	"golang.org/x/tools/go/ssa"
)

func baseFuncName(p *Program, f *ssa.Function) string {
	n := p.relName(f)
	n = strings.ReplaceAll(n, p.pkg.Types.Path()+".", "")
	n = strings.TrimSuffix(n, "$bound")
	n = strings.TrimSuffix(n, "$thunk")
	return n
}

func (p *Program) census(prop string) []*Obligation {
	var out []*Obligation
	for _, cs := range p.spec.Census {
		if prop != "" && !hasProp(cs.Props, prop) {
			continue
		}
		allowed := map[string]bool{}
		for _, a := range cs.Allowed {
			allowed[a] = true
		}
		var offenders []string
		found := 0
		names := make([]string, 0, len(p.funcs))
		for n := range p.funcs {
			names = append(names, n)
		}
		sort.Strings(names)
		for _, n := range names {
			fn := p.funcs[n]
			if fn.Synthetic != "" && fn.Parent() == nil {
				continue // wrappers are attributed to where they are referenced
			}
			pos := p.prog.Fset.Position(fn.Pos())
			if strings.HasSuffix(pos.Filename, "_test.go") || strings.HasSuffix(pos.Filename, "verif_contracts.go") {
				continue
			}
			hit := false
			for _, b := range fn.Blocks {
				for _, in := range b.Instrs {
					switch cs.Kind {
					case "callers":
						for _, op := range in.Operands(nil) {
							if f, ok := (*op).(*ssa.Function); ok && baseFuncName(p, f) == cs.Target {
								hit = true
							}
						}
					case "senders", "closers":
						var chv ssa.Value
						switch in := in.(type) {
						case *ssa.Send:
							if cs.Kind == "senders" {
								chv = in.Chan
							}
						case *ssa.Select:
							if cs.Kind == "senders" {
								for _, stt := range in.States {
									if stt.Dir == types.SendOnly {
										if chanFieldName(p, stt.Chan) == cs.Target {
											hit = true
										}
									}
								}
							}
						case *ssa.Call:
							if b, ok := in.Call.Value.(*ssa.Builtin); ok && b.Name() == "close" && cs.Kind == "closers" {
								chv = in.Call.Args[0]
							}
						}
						if chv != nil && chanFieldName(p, chv) == cs.Target {
							hit = true
						}
						// "chan T": any channel of that type, however it is reached
						if chv != nil && strings.HasPrefix(cs.Target, "chan ") {
							if ct, ok := chv.Type().Underlying().(*types.Chan); ok && "chan "+typeRelName(p, ct.Elem()) == cs.Target {
								hit = true
							}
						}
					case "writers":
						if st, ok := in.(*ssa.Store); ok && strings.HasPrefix(cs.Target, "global ") {
							// "global X": a store into the package-level variable X (or into a field or element
							// of it) outside the package initialiser. Stores through a pointer that was taken
							// earlier are not tracked (input assumption: parameters do not point at globals).
							a := st.Addr
							for {
								if fa, ok := a.(*ssa.FieldAddr); ok {
									a = fa.X
									continue
								}
								if ia, ok := a.(*ssa.IndexAddr); ok {
									a = ia.X
									continue
								}
								break
							}
							if g, ok := a.(*ssa.Global); ok && g.Pkg == fn.Pkg && g.Name() == strings.TrimPrefix(cs.Target, "global ") {
								hit = true
							}
						}
						if st, ok := in.(*ssa.Store); ok {
							if fa, ok := st.Addr.(*ssa.FieldAddr); ok {
								stt := fa.X.Type().Underlying().(*types.Pointer).Elem()
								name := typeRelName(p, stt) + "." + stt.Underlying().(*types.Struct).Field(fa.Field).Name()
								if name == cs.Target {
									hit = true
								}
							}
						}
					}
				}
			}
			if hit {
				found++
				owner := n
				for f := fn; f.Parent() != nil; f = f.Parent() {
					owner = p.relName(f.Parent())
				}
				if !allowed[n] && !allowed[owner] && !p.onlyReachedFrom(fn, allowed, map[*ssa.Function]bool{}) {
					offenders = append(offenders, n)
				}
			}
		}
		o := &Obligation{Name: fmt.Sprintf("census#%s[%s]#0", cs.Kind, cs.Target), Func: "census", Kind: "census", Detail: cs.Target,
			Props: cs.Props, Goal: "true", Desc: fmt.Sprintf("%s of %s are among: %s", cs.Kind, cs.Target, strings.Join(cs.Allowed, ", ")),
			Pos: fmt.Sprintf("%s:%d", shortFile(cs.File), cs.Line)}
		none := len(cs.Allowed) == 1 && cs.Allowed[0] == "none"
		if none && found == 0 {
			o.Res = &SolveResult{Status: "unsat", Solver: "census"}
		} else if len(offenders) == 0 && found > 0 {
			o.Res = &SolveResult{Status: "unsat", Solver: "census"}
		} else if found == 0 {
			o.Res = &SolveResult{Status: "unknown", Solver: "census", Output: "census target is never referenced: " + cs.Target}
		} else {
			o.Res = &SolveResult{Status: "sat", Solver: "census", Output: "also referenced from: " + strings.Join(offenders, ", ")}
			o.Desc += " — offenders: " + strings.Join(offenders, ", ")
		}
		out = append(out, o)
	}
	return out
}


// onlyReachedFrom: fn is an unexported helper that is referenced (called, spawned or taken
// as a value) only from allowed functions or from other such helpers; it cannot be invoked
// through an interface. Such a helper's sends, closes and stores happen only on behalf of
// the allowed functions, so it does not widen the census (extracting a helper out of an
// allowed function is not a violation).
func (p *Program) onlyReachedFrom(fn *ssa.Function, allowed map[string]bool, seen map[*ssa.Function]bool) bool {
	for fn.Parent() != nil {
		fn = fn.Parent()
	}
	if seen[fn] {
		return true
	}
	seen[fn] = true
	if fn.Object() == nil || fn.Object().Exported() {
		return false
	}
	refs := 0
	for _, g := range p.funcs {
		if g.Synthetic != "" && g.Parent() == nil {
			continue
		}
		pos := p.prog.Fset.Position(g.Pos())
		if strings.HasSuffix(pos.Filename, "verif_contracts.go") {
			continue
		}
		hit := false
		for _, b := range g.Blocks {
			for _, in := range b.Instrs {
				if c, ok := in.(ssa.CallInstruction); ok && c.Common().IsInvoke() && c.Common().Method.Name() == fn.Name() && fn.Signature.Recv() != nil {
					return false
				}
				for _, op := range in.Operands(nil) {
					if f, ok := (*op).(*ssa.Function); ok && baseFuncName(p, f) == baseFuncName(p, fn) {
						hit = true
					}
				}
			}
		}
		if !hit {
			continue
		}
		if strings.HasSuffix(pos.Filename, "_test.go") {
			continue
		}
		refs++
		top := g
		for top.Parent() != nil {
			top = top.Parent()
		}
		if top == fn {
			continue
		}
		if allowed[p.relName(g)] || allowed[p.relName(top)] || allowed[baseFuncName(p, top)] {
			continue
		}
		if !p.onlyReachedFrom(top, allowed, seen) {
			return false
		}
	}
	return refs > 0
}

func chanFieldName(p *Program, v ssa.Value) string {
	for {
		switch a := v.(type) {
		case *ssa.ChangeType:
			v = a.X
			continue
		case *ssa.UnOp:
			if fa, ok := a.X.(*ssa.FieldAddr); ok {
				stt := fa.X.Type().Underlying().(*types.Pointer).Elem()
				return typeRelName(p, stt) + "." + stt.Underlying().(*types.Struct).Field(fa.Field).Name()
			}
		}
		return ""
	}
}
