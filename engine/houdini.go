package main

// Invariant inference for loops inside inlined, uncontracted helpers (Houdini, Flanagan & Leino 2001).
//
// A loop that a refactoring moved out of a function under contract into a new helper has no
// `loop N invariant` clause of its own: contracts are keyed by function and loop ordinal. Such a
// loop used to be havocked without any invariant, which made every fact the caller's proof needed
// from the loop unprovable, and a harmless "extract function" edit a false alarm.
//
// Candidates are the conjuncts of the loop invariants written in the contract of the function
// under verification (the code they were written for may now live in the helper) plus the
// structural bound of a range loop. A candidate is kept only if the solver proves it on entry and
// proves it preserved by an arbitrary iteration under the kept candidates; anything else is dropped
// and the function is verified again, until nothing is dropped. What survives is an inductive
// invariant that was PROVED, not assumed: inference can only make the check more complete.

import (
	"fmt"
	"go/parser"
	"os"
	"path/filepath"
	"sort"
	"strings"

	"golang.org/x/tools/go/ssa"
)

func (x *Exec) inferredLoopSpec(fn *ssa.Function, li *loopInfo) *LoopSpec {
	hname := x.prog.relName(fn)
	ck := fmt.Sprintf("%s/%d", hname, li.ordinal)
	if ls, ok := x.inferred[ck]; ok {
		return ls
	}
	if x.inferred == nil {
		x.inferred = map[string]*LoopSpec{}
	}
	ls := &LoopSpec{Soft: true}
	seen := map[string]bool{}
	add := func(text string, from *Clause) {
		key := fmt.Sprintf("%s>%s/%d:%s", x.fname, hname, li.ordinal, text)
		if seen[text] || x.prog.houdiniDropped[key] {
			return
		}
		seen[text] = true
		e, err := parser.ParseExpr(text)
		if err != nil {
			return
		}
		c := &Clause{Expr: e, Text: text, Label: key}
		if from != nil {
			c.File, c.Line = from.File, from.Line
		}
		ls.Invs = append(ls.Invs, c)
	}
	add("0 <= it_", nil)
	add("it_ <= len(rng_)", nil)
	var ords []int
	for o := range x.spec.Loops {
		ords = append(ords, o)
	}
	sort.Ints(ords)
	for _, o := range ords {
		for _, c := range x.spec.Loops[o].Invs {
			for _, pe := range x.splitConj(c.Expr, 0) {
				add(exprString(pe), c)
			}
		}
	}
	x.inferred[ck] = ls
	var kept []string
	for _, c := range ls.Invs {
		kept = append(kept, c.Text)
	}
	x.notes = append(x.notes, fmt.Sprintf("loop %d of %s has no invariant clause: invariant inferred from %d candidates (each proved on entry and preserved, or dropped): %s",
		li.ordinal, hname, len(ls.Invs), strings.Join(kept, " && ")))
	return ls
}

// tryEvalBool evaluates a candidate; one that does not make sense at this loop (a name that is not
// in scope, a type mismatch) is dropped.
func (x *Exec) tryEvalBool(env *Env, c *Clause) (g Term, ok bool) {
	if x.prog.houdiniDropped[c.Label] {
		return "", false
	}
	defer func() {
		if r := recover(); r != nil {
			switch r.(type) {
			case specErr, unsupportedErr:
				x.prog.dropCandidate(c.Label)
				x.houdiniRetry = true
				g, ok = "", false
			default:
				panic(r)
			}
		}
	}()
	return env.evalBool(c.Expr), true
}

func (p *Program) dropCandidate(key string) {
	if p.houdiniDropped == nil {
		p.houdiniDropped = map[string]bool{}
	}
	if os.Getenv("LIMEVC_NOTES") != "" && !p.houdiniDropped[key] {
		fmt.Printf("NOTE houdini: dropped %s\n", key)
	}
	p.houdiniDropped[key] = true
}

// verifyWithInference runs the function's symbolic execution until the set of candidates is stable.
func verifyWithInference(prog *Program, fn *ssa.Function, fs *FuncSpec, rc *runConfig) (*Exec, error) {
	for round := 0; ; round++ {
		x := newExec(prog, fn, fs)
		err := x.verify()
		var soft []*Obligation
		for _, o := range x.obls {
			if strings.HasPrefix(o.Kind, "softinv") {
				soft = append(soft, o)
			}
		}
		if (len(soft) == 0 && !x.houdiniRetry) || round >= 12 {
			return x, err
		}
		changed := x.houdiniRetry
		if len(soft) > 0 {
			dir := filepath.Join(rc.outDir, "smt", "houdini")
			if os.Getenv("LIMEVC_NOTES") != "" {
				dir = filepath.Join(rc.outDir, "smt", fmt.Sprintf("houdini-%s-%d", sanitize(prog.relName(fn)), round))
			}
			os.RemoveAll(dir)
			t := rc.timeout
			if t > 10 {
				t = 10
			}
			solveAll(soft, dir, t, rc.seed, false, rc.workers)
			for _, o := range soft {
				if os.Getenv("LIMEVC_NOTES") != "" && (o.Res == nil || o.Res.Status != "unsat") {
					fmt.Printf("NOTE houdini: %s %s (%s)\n", o.Res.Status, o.Name, o.Trace)
				}
				if o.Res == nil || o.Res.Status != "unsat" {
					if !prog.houdiniDropped[o.Detail] {
						prog.dropCandidate(o.Detail)
						changed = true
					}
				}
			}
		}
		if !changed {
			// every remaining candidate is proved: the soft obligations stay in the report as discharged
			return x, err
		}
	}
}
