package main

import (
	"fmt"
	"go/token"
	"go/types"
	"sort"
	"strconv"
	"strings"

	"golang.org/x/tools/go/ssa"
)

type heapNode struct {
	name string
	sort string
	kind int // 0 initial, 1 store, 2 havoc
	prev *heapNode
	keep func(addr Term) Term // havoc: condition under which the cell is unchanged
	allocAt Term              // initial/havoc nodes: every reference stored in this version is <= allocAt
	addr, val Term            // store nodes: the cell written and its new content
}

type closureInfo struct {
	fn       *ssa.Function
	bindings []Val
}

type deferred struct {
	call *ssa.CallCommon
	args []Val
	fnv  Val
}

type Frame struct {
	fn     *ssa.Function
	regs   map[ssa.Value]Val
	free   []Val
	defers []deferred
	retK   func(st *State, res Val) // continuation at return (nil = top level)
	depth  int
	paramSite map[*ssa.Parameter]string // inlined helper: role site of the function value passed for a parameter
	paramVariant map[*ssa.Parameter]string // inlined helper: static type behind an interface argument (selects type-specific extern contracts)
}

func (f *Frame) clone() *Frame {
	g := &Frame{fn: f.fn, free: f.free, retK: f.retK, depth: f.depth, paramSite: f.paramSite, paramVariant: f.paramVariant}
	g.regs = make(map[ssa.Value]Val, len(f.regs)+8)
	for k, v := range f.regs {
		g.regs[k] = v
	}
	g.defers = append([]deferred(nil), f.defers...)
	return g
}

type snapshot struct {
	heaps map[string]*heapNode
	alloc Term
}

type callRec struct {
	res  Val
	args []Val
	snap *snapshot
}

type State struct {
	x        *Exec
	heaps    map[string]*heapNode
	alloc    Term
	asms     []Term
	frames   []*Frame
	instd    map[string]bool
	closures map[string]*closureInfo
	held     map[string]bool // locks held: address term of mutex
	heldW    map[string]bool // ... held exclusively
	trace    []string
	ghostInt map[string]Term // per-path ghost counters (e.g. sends per stream)
	lastCall map[string]*callRec // per path: result and post-state of the latest call checked against each contract
	panicked bool
	pendingAlloc string // alloc counter that bounds references in heap versions being created
	loopSnaps map[*ssa.BasicBlock]*snapshot // heap at the first arrival at each loop head (atloop(...))
	iterSnaps map[*ssa.BasicBlock]*snapshot // heap at the start of the symbolic iteration (atiter(...))
	events    *evNode                       // persistent list of external interactions (replay scripts)
	firstIter []loopEq                      // see Obligation.firstIter
	curBlock  *ssa.BasicBlock               // block of the function under verification being executed
}

// extEvent is one call that the real code makes into something the replay has to
// fake: a method of a modelled interface (Transport, net.Conn, ...) or a callback.
type extEvent struct {
	kind string // method | role | func
	key  string // "Transport.Send" | role name | in-package callee (contract name)
	recv Val    // interface value, or the function value
	res  Val
	sig  *types.Signature
	post *snapshot
	// func events (a contracted in-package callee, stubbed in a modular replay)
	fs   *FuncSpec
	vars map[string]Val // the callee's parameters by the names its contract uses
	fn   *ssa.Function
	pos  token.Pos
}

type evNode struct {
	ev   *extEvent
	prev *evNode
}

func (st *State) fork() *State {
	n := &State{x: st.x, alloc: st.alloc}
	n.heaps = make(map[string]*heapNode, len(st.heaps))
	for k, v := range st.heaps {
		n.heaps[k] = v
	}
	n.asms = append([]Term(nil), st.asms...)
	n.frames = make([]*Frame, len(st.frames))
	for i, f := range st.frames {
		n.frames[i] = f.clone()
	}
	n.instd = make(map[string]bool, len(st.instd))
	for k, v := range st.instd {
		n.instd[k] = v
	}
	n.closures = make(map[string]*closureInfo, len(st.closures))
	for k, v := range st.closures {
		n.closures[k] = v
	}
	n.held = make(map[string]bool, len(st.held))
	for k, v := range st.held {
		n.held[k] = v
	}
	n.heldW = make(map[string]bool, len(st.heldW))
	for k, v := range st.heldW {
		n.heldW[k] = v
	}
	n.ghostInt = make(map[string]Term, len(st.ghostInt))
	for k, v := range st.ghostInt {
		n.ghostInt[k] = v
	}
	if st.lastCall != nil {
		n.lastCall = make(map[string]*callRec, len(st.lastCall))
		for k, v := range st.lastCall {
			n.lastCall[k] = v
		}
	}
	n.trace = append([]string(nil), st.trace...)
	n.events = st.events
	n.firstIter = append([]loopEq(nil), st.firstIter...)
	n.curBlock = st.curBlock
	n.pendingAlloc = st.pendingAlloc
	if st.loopSnaps != nil {
		n.loopSnaps = make(map[*ssa.BasicBlock]*snapshot, len(st.loopSnaps))
		for k, v := range st.loopSnaps {
			n.loopSnaps[k] = v
		}
	}
	if st.iterSnaps != nil {
		n.iterSnaps = make(map[*ssa.BasicBlock]*snapshot, len(st.iterSnaps))
		for k, v := range st.iterSnaps {
			n.iterSnaps[k] = v
		}
	}
	return n
}

func (st *State) snap() *snapshot {
	s := &snapshot{alloc: st.alloc, heaps: make(map[string]*heapNode, len(st.heaps))}
	for k, v := range st.heaps {
		s.heaps[k] = v
	}
	return s
}

func (st *State) top() *Frame { return st.frames[len(st.frames)-1] }

func (st *State) assume(t Term) {
	if t == "true" {
		return
	}
	st.asms = append(st.asms, t)
}

func heapSym(key string) string {
	if strings.HasPrefix(key, "g:") {
		return "G_" + sanitize(key[2:])
	}
	return "H_" + sanitize(key)
}

func isGhostAddr(addr Term) bool { return strings.HasPrefix(addr, "(mkref (- (- ") }

// heapKey: ghost cells are kept in arrays of their own, so that updates of
// ghost state never create a new version of the program's memory.
func heapKey(sort string, addr Term) string {
	if isGhostAddr(addr) {
		return "g:" + sort
	}
	return sort
}

func keySort(key string) string { return strings.TrimPrefix(key, "g:") }

func (st *State) heapOf(hs map[string]*heapNode, key string) *heapNode {
	if h, ok := hs[key]; ok {
		return h
	}
	// the initial heap of this sort (shared by all states of the function)
	name := heapSym(key) + "_0"
	st.x.d.Declare(name, "(Array Ref "+keySort(key)+")")
	h := st.x.initHeaps[key]
	if h == nil {
		h = &heapNode{name: name, sort: keySort(key), allocAt: "alloc_0"}
		st.x.initHeaps[key] = h
	}
	hs[key] = h
	return h
}

func (st *State) instantiate(h *heapNode, addr Term) {
	for n := h; n != nil; n = n.prev {
		if n.kind == 1 {
			continue
		}
		key := n.name + "|" + addr
		if st.instd[key] {
			return
		}
		st.instd[key] = true
		if n.kind == 2 {
			st.assume(tImp(n.keep(addr), tEq(tSel(n.name, addr), tSel(n.prev.name, addr))))
		}
		if n.sort == "Ref" && n.allocAt != "" {
			// heap invariant: a reference stored in this heap version existed when the version was created
			// (cells of objects allocated later by callees are excluded: their content is only known through contracts)
			st.assume(tImp("(<= "+tOrid(addr)+" "+n.allocAt+")", "(<= "+tRid(tSel(n.name, addr))+" "+n.allocAt+")"))
		}
	}
}

// loadIn reads a leaf from the given heap snapshot (nil = current heap).
func (st *State) loadIn(sn *snapshot, sort string, addr Term) Term {
	hs := st.heaps
	if sn != nil {
		hs = sn.heaps
	}
	key := heapKey(sort, addr)
	if st.x.inRec > 0 && key != sort {
		panic(specErr{"a recursive spec fn may not read ghost state (its value is keyed by the program memory only)"})
	}
	h := st.heapOf(hs, key)
	if sn != nil {
		// make sure both views agree on the initial heap
		if _, ok := st.heaps[key]; !ok {
			st.heaps[key] = st.x.initHeaps[key]
		}
	}
	// store forwarding: when the cell was written on this path at a
	// syntactically identical address (and every later write is to a provably
	// different cell), the read yields the stored term itself
	for n := h; n != nil && n.kind == 1; n = n.prev {
		if n.addr == addr {
			return n.val
		}
		if !distinctAddrs(n.addr, addr) {
			break
		}
	}
	st.instantiate(h, addr)
	return st.x.d.FreshDef("ld", sort, tSel(h.name, addr))
}

// distinctAddrs: syntactic proof that two address terms denote different cells.
func distinctAddrs(a, b Term) bool {
	if !strings.HasPrefix(a, "(mkref ") || !strings.HasPrefix(b, "(mkref ") {
		return false
	}
	ra, pa, ok1 := splitFirst(a[7 : len(a)-1])
	rb, pb, ok2 := splitFirst(b[7 : len(b)-1])
	if !ok1 || !ok2 {
		return false
	}
	if ra != rb {
		ga, gb := strings.HasPrefix(ra, "(- (- "), strings.HasPrefix(rb, "(- (- ")
		if ga != gb {
			return true // a ghost cell and a real cell never coincide
		}
		if ga {
			ra, rb = ra[6:len(ra)-4], rb[6:len(rb)-4]
		}
		// two different objects allocated on this path
		return strings.HasPrefix(ra, "alloc_") && strings.HasPrefix(rb, "alloc_") && ra != "alloc_0" && rb != "alloc_0" && ra != rb
	}
	return distinctPaths(pa, pb)
}

// distinctPaths: same root, statically different field/ghost steps.
func distinctPaths(pa, pb Term) bool {
	sa, roota := pathSteps(pa)
	sb, rootb := pathSteps(pb)
	if roota != rootb {
		return false
	}
	n := len(sa)
	if len(sb) < n {
		n = len(sb)
	}
	for i := 0; i < n; i++ {
		if sa[i] != sb[i] {
			// both steps static (field or ghost with literal index)?
			return staticStep(sa[i]) && staticStep(sb[i])
		}
	}
	return len(sa) != len(sb) && false
}

func staticStep(s string) bool {
	return strings.HasPrefix(s, "f:") || strings.HasPrefix(s, "g:") || strings.HasPrefix(s, "i:")
}

// pathSteps decomposes (pfld (pfld ROOT 1) 2) into steps ["f:1","f:2"] and ROOT.
func pathSteps(p Term) ([]string, Term) {
	var rev []string
	for {
		var kind string
		switch {
		case strings.HasPrefix(p, "(pfld "):
			kind = "f:"
		case strings.HasPrefix(p, "(pgh "):
			kind = "g:"
		case strings.HasPrefix(p, "(pidx "):
			kind = "i:"
		default:
			out := make([]string, len(rev))
			for i := range rev {
				out[i] = rev[len(rev)-1-i]
			}
			return out, p
		}
		body := p[strings.Index(p, " ")+1 : len(p)-1]
		inner, idx, ok := splitFirst(body)
		if !ok {
			return nil, p
		}
		if kind == "i:" {
			if _, err := strconv.Atoi(idx); err != nil {
				kind = "x:" // dynamic index: not static
			}
		}
		rev = append(rev, kind+idx)
		p = inner
	}
}

func (st *State) storeLeaf(sort string, addr, v Term) {
	key := heapKey(sort, addr)
	h := st.heapOf(st.heaps, key)
	name := st.x.d.FreshDef(heapSym(key), "(Array Ref "+sort+")", tStore(h.name, addr, v))
	st.heaps[key] = &heapNode{name: name, sort: sort, kind: 1, prev: h, addr: addr, val: v}
}

func (st *State) havocHeap(key string, keep func(addr Term) Term) {
	h := st.heapOf(st.heaps, key)
	name := st.x.d.FreshConst(heapSym(key), "(Array Ref "+keySort(key)+")")
	st.heaps[key] = &heapNode{name: name, sort: keySort(key), kind: 2, prev: h, keep: keep, allocAt: st.pendingAlloc}
}

func (st *State) havocAll(keep func(addr Term) Term) {
	// every heap sort known to the function so far, plus the standard ones
	for _, s := range []string{"Bool", "Int", "String", "Ref", "g:Bool", "g:Int", "g:String", "g:Ref"} {
		st.heapOf(st.heaps, s)
	}
	for s := range st.x.initHeaps {
		st.heapOf(st.heaps, s)
	}
	for s := range st.heaps {
		st.havocHeap(s, keep)
	}
}

// bumpAlloc models allocation by a callee: the counter may only grow.
func (st *State) bumpAlloc() {
	a := st.pendingAlloc
	if a == "" {
		a = st.x.d.FreshConst("alloc", "Int")
	}
	st.pendingAlloc = ""
	st.assume("(>= " + a + " " + st.alloc + ")")
	st.alloc = a
}

// prepareAlloc declares the post-call allocation counter before the heap is
// havocked, so that the new heap versions can refer to it.
func (st *State) prepareAlloc() {
	st.pendingAlloc = st.x.d.FreshConst("alloc", "Int")
}

func (st *State) newObject() Term {
	a := st.x.d.FreshDef("alloc", "Int", "(+ "+st.alloc+" 1)")
	st.alloc = a
	return "(mkref " + a + " pnil)"
}

// wfLeaf returns the well-formedness assumption of one leaf value.
func (st *State) wfLeaf(l Leaf, v Term, alloc Term) Term {
	switch l.Kind {
	case LkRef, LkPayload, LkSlArr:
		base := tAnd("(>= "+tRid(v)+" 0)", "(<= "+tRid(v)+" "+alloc+")", tImp(tIsNil(v), tEq(v, rnil)))
		if ct, ok := l.T.Underlying().(*types.Chan); ok && l.Kind == LkRef {
			// channels of different element types are different objects
			st.x.d.DeclareFun("roottype", []string{"Int"}, "Int")
			id := st.x.prog.typeID(types.NewChan(types.SendRecv, ct.Elem()))
			base = tAnd(base, tOr(tIsNil(v), fmt.Sprintf("(= (roottype %s) %d)", tRid(v), 100000+id)))
		}
		if pt, ok := l.T.Underlying().(*types.Pointer); ok && l.Kind == LkRef {
			// Go's type safety: a *T points into an allocation whose root type contains a T
			st.x.d.DeclareFun("roottype", []string{"Int"}, "Int")
			base = tAnd(base, tOr(tIsNil(v), st.x.prog.rootOK(pt.Elem(), "(roottype "+tRid(v)+")")))
		}
		return base
	case LkSlOff, LkSlLen:
		return "(>= " + v + " 0)"
	case LkTag:
		return "(>= " + v + " 0)"
	}
	if l.Sort == "Int" {
		if b, ok := l.T.Underlying().(*types.Basic); ok && b.Info()&types.IsUnsigned != 0 {
			return "(>= " + v + " 0)"
		}
	}
	return "true"
}

func (st *State) assumeWF(v Val) {
	ls := leavesOf(v.T)
	for i, l := range ls {
		st.assume(st.wfLeaf(l, v.L[i], st.alloc))
		if l.Kind == LkTag && i+1 < len(ls) && ls[i+1].Kind == LkPayload {
			st.assume(tImp(tEq(v.L[i], "0"), tEq(v.L[i+1], rnil)))
			// a string-kinded dynamic value is boxed canonically (smt.go: boxString), whoever built it
			if sk := st.stringKindedTag(v.L[i]); sk != "false" {
				key := "boxwf|" + v.L[i] + "|" + v.L[i+1]
				if !st.instd[key] {
					st.instd[key] = true
					st.assume(tImp(sk, tEq(v.L[i+1], boxString(unboxString(v.L[i+1])))))
				}
			}
			if cw := st.x.prog.closedWorldTags(l.T); cw != nil {
				var alts []Term
				alts = append(alts, tEq(v.L[i], "0"))
				for _, id := range cw {
					alts = append(alts, tEq(v.L[i], tInt(int64(id))))
				}
				st.assume(tOr(alts...))
			}
		}
		if l.Kind == LkSlArr && i+2 < len(ls) {
			// nil slice has length 0
			st.assume(tImp(tIsNil(v.L[i]), tAnd(tEq(v.L[i+1], "0"), tEq(v.L[i+2], "0"))))
		}
	}
}

func (st *State) loadValIn(sn *snapshot, addr Term, t types.Type) Val {
	ls := leavesOf(t)
	v := Val{T: t, L: make([]Term, len(ls))}
	for i, l := range ls {
		v.L[i] = st.loadIn(sn, l.Sort, extend(addr, l.Path))
	}
	st.assumeWF(v)
	if ei, ok := st.x.elemInfo[addr]; ok {
		if ar := st.x.appendInfo[ei.arr]; ar != nil {
			st.copyAxiom(ar, ei, addr, t, 0)
		}
		if ei.hasSl {
			st.memberAxiom(ei, v)
		}
	}
	return v
}

// elemsOf: the element set of a slice of string-kinded values (uninterpreted
// in (arr, off, len): slices are treated as immutable once built).
func (st *State) elemsOf(sl [3]Term) Term {
	st.x.d.DeclareFun("elems", []string{"Ref", "Int", "Int"}, "(Array String Bool)")
	t := "(elems " + sl[0] + " " + sl[1] + " " + sl[2] + ")"
	if !st.instd["elems0|"+t] {
		st.instd["elems0|"+t] = true
		st.assume(tImp("(<= "+sl[2]+" 0)", tEq(t, "((as const (Array String Bool)) false)")))
	}
	return t
}

// tagsOf: the set of dynamic type tags of the elements of a slice of interface
// values (uninterpreted in (arr, off, len), like elemsOf).
func (st *State) tagsOf(sl [3]Term) Term {
	st.x.d.DeclareFun("tagsof", []string{"Ref", "Int", "Int"}, "(Array Int Bool)")
	t := "(tagsof " + sl[0] + " " + sl[1] + " " + sl[2] + ")"
	if !st.instd["tags0|"+t] {
		st.instd["tags0|"+t] = true
		st.assume(tImp("(<= "+sl[2]+" 0)", tEq(t, "((as const (Array Int Bool)) false)")))
	}
	return t
}

// stringKindedTag: the disjunction "tag is one of the string-kinded named types".
func (st *State) stringKindedTag(tag Term) Term {
	var alts []Term
	ids := make([]int, 0)
	for id, t := range st.x.prog.typeByID {
		if l := leavesOfSafe(t); len(l) == 1 && l[0].Sort == "String" && l[0].Kind == LkPlain {
			ids = append(ids, id)
		}
	}
	sort.Ints(ids)
	for _, id := range ids {
		alts = append(alts, tEq(tag, tInt(int64(id))))
	}
	if len(alts) == 0 {
		return "false"
	}
	return tOr(alts...)
}

// memberAxiom: an element read from a slice belongs to the slice's element set.
func (st *State) memberAxiom(ei elemRef, v Val) {
	ls := leavesOf(v.T)
	inRange := tAnd("(<= 0 "+ei.rel+")", "(< "+ei.rel+" "+ei.sl[2]+")")
	switch {
	case len(ls) == 1 && ls[0].Sort == "String":
		st.assume(tImp(inRange, tSel(st.elemsOf(ei.sl), v.L[0])))
	case len(ls) == 2 && ls[0].Kind == LkTag:
		// interface element boxing a string-kinded value
		var alts []Term
		ids := make([]int, 0)
		for id, t := range st.x.prog.typeByID {
			if l := leavesOfSafe(t); len(l) == 1 && l[0].Sort == "String" && l[0].Kind == LkPlain {
				ids = append(ids, id)
			}
		}
		sort.Ints(ids)
		for _, id := range ids {
			alts = append(alts, tEq(v.L[0], tInt(int64(id))))
		}
		if len(alts) == 0 {
			return
		}
		st.assume(tImp(tAnd(inRange, tOr(alts...)), tSel(st.elemsOf(ei.sl), unboxString(v.L[1]))))
		st.assume(tImp(inRange, tSel(st.tagsOf(ei.sl), v.L[0])))
	}
}

func leavesOfSafe(t types.Type) (ls []Leaf) {
	defer func() {
		if r := recover(); r != nil {
			ls = nil
		}
	}()
	return leavesOf(t)
}

// copyAxiom: contents of a backing array produced by append, stated for the
// element at addr in the heap as it was right after the append.
func (st *State) copyAxiom(ar *appendRec, ei elemRef, addr Term, t types.Type, depth int) {
	key := "append|" + addr
	if st.instd[key] || depth > 3 {
		return
	}
	st.instd[key] = true
	len1, len2 := ar.s1[2], ar.s2[2]
	in1 := tAnd("(<= 0 "+ei.idx+")", "(< "+ei.idx+" "+len1+")")
	in2 := tAnd("(<= "+len1+" "+ei.idx+")", "(< "+ei.idx+" (+ "+len1+" "+len2+"))")
	src1 := extendIdx(ar.s1[0], tAddInt(ar.s1[1], ei.idx))
	src2 := extendIdx(ar.s2[0], tAddInt(ar.s2[1], "(- "+ei.idx+" "+len1+")"))
	for _, l := range leavesOf(t) {
		h := st.heapOf(ar.snap.heaps, l.Sort)
		sel := func(a Term) Term {
			st.instantiate(h, a)
			return tSel(h.name, a)
		}
		a := extend(addr, l.Path)
		st.assume(tImp(in1, tEq(sel(a), sel(extend(src1, l.Path)))))
		st.assume(tImp(in2, tEq(sel(a), sel(extend(src2, l.Path)))))
	}
	// a source that is itself the result of an append: chain
	for _, src := range []struct{ arr, addr, idx Term }{{ar.s1[0], src1, tAddInt(ar.s1[1], ei.idx)}, {ar.s2[0], src2, tAddInt(ar.s2[1], "(- "+ei.idx+" "+len1+")")}} {
		if ar2 := st.x.appendInfo[src.arr]; ar2 != nil {
			st.copyAxiom(ar2, elemRef{arr: src.arr, idx: src.idx}, src.addr, t, depth+1)
		}
	}
}

func (st *State) loadVal(addr Term, t types.Type) Val { return st.loadValIn(nil, addr, t) }

func (st *State) storeVal(addr Term, v Val) {
	ls := leavesOf(v.T)
	if len(ls) != len(v.L) {
		panic(fmt.Sprintf("storeVal: leaf mismatch for %s: %d vs %d", v.T, len(ls), len(v.L)))
	}
	for i, l := range ls {
		st.storeLeaf(l.Sort, extend(addr, l.Path), v.L[i])
	}
}

func (st *State) freshVal(prefix string, t types.Type) Val {
	ls := leavesOf(t)
	v := Val{T: t, L: make([]Term, len(ls))}
	for i, l := range ls {
		v.L[i] = st.x.d.FreshConst(prefix, l.Sort)
	}
	st.assumeWF(v)
	return v
}

func zeroVal(t types.Type) Val {
	ls := leavesOf(t)
	v := Val{T: t, L: make([]Term, len(ls))}
	for i, l := range ls {
		v.L[i] = zeroOfSort(l.Sort)
	}
	return v
}

func valEq(a, b Val) Term {
	if len(a.L) != len(b.L) {
		panic(fmt.Sprintf("valEq: shape mismatch %s (%d) vs %s (%d)", a.T, len(a.L), b.T, len(b.L)))
	}
	var cs []Term
	ls := leavesOf(a.T)
	for i := range a.L {
		if i < len(ls) && ls[i].Kind == LkSlOff {
			// slices are only compared with nil: arr decides
			continue
		}
		if i < len(ls) && ls[i].Kind == LkSlLen {
			continue
		}
		cs = append(cs, tEq(a.L[i], b.L[i]))
	}
	return tAnd(cs...)
}

func (st *State) traceStr() string { return strings.Join(st.trace, ",") }
