package main

// Evaluation of contract expressions (Go expression syntax + extensions) to
// symbolic values over a State.

import (
	"sort"
	"fmt"
	"go/ast"
	"go/constant"
	"go/parser"
	"go/token"
	"go/types"
	"strconv"
	"strings"
)

type Env struct {
	x    *Exec
	st   *State
	cur  *snapshot // nil = the state's current heap
	old  *snapshot // what old(...) refers to
	vars map[string]Val
	what string // for error messages
	loopSnap *snapshot // heap at loop entry, for atloop(...)
	iterSnap *snapshot // heap at the start of the current symbolic iteration, for atiter(...)
}

type specErr struct{ msg string }

func (e specErr) Error() string { return e.msg }

func (e *Env) fail(format string, a ...interface{}) {
	panic(specErr{fmt.Sprintf("contract error in %s: %s", e.what, fmt.Sprintf(format, a...))})
}

// noCallRec: resultof/argof/atreturn named a call that did not happen on the current path
type noCallRec struct{}

var tyBool = types.Typ[types.Bool]
var tyInt = types.Typ[types.Int]
var tyString = types.Typ[types.String]
var tyUntypedNil = types.Typ[types.UntypedNil]

func boolVal(t Term) Val { return Val{T: tyBool, L: []Term{t}} }
func intVal(t Term) Val  { return Val{T: tyInt, L: []Term{t}} }

type place struct {
	isAddr bool
	addr   Term
	val    Val
	T      types.Type
}

func (e *Env) withCur(s *snapshot) *Env {
	n := *e
	n.cur = s
	return &n
}

func (e *Env) toVal(p place) Val {
	if p.isAddr {
		return e.st.loadValIn(e.cur, p.addr, p.T)
	}
	return p.val
}

func (e *Env) evalBool(x ast.Expr) Term {
	v := e.eval(x)
	if len(v.L) != 1 || leavesOf(v.T)[0].Sort != "Bool" {
		e.fail("expression %s is not boolean", exprString(x))
	}
	return v.L[0]
}

func exprString(x ast.Expr) string {
	var b strings.Builder
	_ = printerFprint(&b, x)
	return b.String()
}

func (e *Env) eval(x ast.Expr) Val { return e.toVal(e.evalPlace(x)) }

func (e *Env) pkgScope() *types.Scope { return e.x.prog.pkg.Types.Scope() }

func constVal(c constant.Value, t types.Type) Val {
	switch c.Kind() {
	case constant.Bool:
		if constant.BoolVal(c) {
			return Val{T: t, L: []Term{"true"}}
		}
		return Val{T: t, L: []Term{"false"}}
	case constant.String:
		return Val{T: t, L: []Term{tStr(constant.StringVal(c))}}
	case constant.Int:
		n, _ := constant.Int64Val(c)
		return Val{T: t, L: []Term{tInt(n)}}
	}
	panic(unsupported("constant kind " + c.String()))
}

func (e *Env) evalPlace(x ast.Expr) place {
	switch x := x.(type) {
	case *ast.ParenExpr:
		return e.evalPlace(x.X)
	case *ast.Ident:
		if v, ok := e.vars[x.Name]; ok {
			return place{val: v, T: v.T}
		}
		switch x.Name {
		case "true":
			return place{val: boolVal("true"), T: tyBool}
		case "false":
			return place{val: boolVal("false"), T: tyBool}
		case "nil":
			return place{val: Val{T: tyUntypedNil, L: []Term{rnil}}, T: tyUntypedNil}
		}
		if g, ok := e.x.prog.spec.GlobalGhosts[x.Name]; ok {
			return place{isAddr: true, addr: extendGhost("(mkref 9998 pnil)", g.Index), T: e.x.parseType(g.Type)}
		}
		if o := e.pkgScope().Lookup(x.Name); o != nil {
			switch o := o.(type) {
			case *types.Const:
				v := constVal(o.Val(), o.Type())
				return place{val: v, T: v.T}
			case *types.Var:
				return place{isAddr: true, addr: e.x.globalAddr(o), T: o.Type()}
			}
		}
		e.fail("unknown identifier %q", x.Name)
	case *ast.BasicLit:
		switch x.Kind {
		case token.INT:
			n, _ := strconv.ParseInt(x.Value, 0, 64)
			return place{val: intVal(tInt(n)), T: tyInt}
		case token.STRING:
			s, err := strconv.Unquote(x.Value)
			if err != nil {
				e.fail("bad string literal %s", x.Value)
			}
			return place{val: Val{T: tyString, L: []Term{tStr(s)}}, T: tyString}
		}
		e.fail("unsupported literal %s", x.Value)
	case *ast.SelectorExpr:
		// qualified identifier of an imported package?
		if id, ok := x.X.(*ast.Ident); ok {
			if _, isVar := e.vars[id.Name]; !isVar && e.pkgScope().Lookup(id.Name) == nil {
				if ip := e.x.prog.importedPkg(id.Name); ip != nil {
					o := ip.Scope().Lookup(x.Sel.Name)
					switch o := o.(type) {
					case *types.Const:
						v := constVal(o.Val(), o.Type())
						return place{val: v, T: v.T}
					case *types.Var:
						return place{isAddr: true, addr: e.x.globalAddr(o), T: o.Type()}
					}
					e.fail("unknown qualified identifier %s.%s", id.Name, x.Sel.Name)
				}
			}
		}
		p := e.evalPlace(x.X)
		return e.selectField(p, x.Sel.Name)
	case *ast.StarExpr:
		v := e.eval(x.X)
		if mt, isMap := v.T.Underlying().(*types.Map); isMap {
			// *m : the content (domain and values) of map m, for modifies clauses
			return place{isAddr: true, addr: v.L[0], T: mapObjType(mt)}
		}
		pt, ok := v.T.Underlying().(*types.Pointer)
		if !ok {
			e.fail("cannot dereference %s of type %s", exprString(x.X), v.T)
		}
		return place{isAddr: true, addr: v.L[0], T: pt.Elem()}
	case *ast.IndexExpr:
		base := e.eval(x.X)
		switch bt := base.T.Underlying().(type) {
		case *types.Slice:
			i := e.eval(x.Index)
			ea := extendIdx(base.L[0], tAddInt(base.L[1], i.L[0]))
			e.x.elemInfo[ea] = elemRef{arr: base.L[0], idx: tAddInt(base.L[1], i.L[0]), sl: [3]Term{base.L[0], base.L[1], base.L[2]}, rel: i.L[0], hasSl: true}
			return place{isAddr: true, addr: ea, T: bt.Elem()}
		case *types.Map:
			k := e.eval(x.Index)
			k = e.coerce(k, bt.Key())
			_, v := e.st.mapLookupIn(e.cur, base, k)
			return place{val: v, T: bt.Elem()}
		}
		if isSetType(base.T) {
			k := e.eval(x.Index)
			return place{val: boolVal(selectN(base.L[0], k.L)), T: tyBool}
		}
		e.fail("cannot index %s", base.T)
	}
	if c, ok := x.(*ast.CallExpr); ok {
		if id, ok := c.Fun.(*ast.Ident); ok && id.Name == "closed" && len(c.Args) == 1 {
			ch := e.eval(c.Args[0])
			return place{isAddr: true, addr: extendGhost(ch.L[0], 0), T: tyBool}
		}
	}
	v := e.evalValue(x)
	return place{val: v, T: v.T}
}

func selectN(arr Term, keys []Term) Term {
	for _, k := range keys {
		arr = tSel(arr, k)
	}
	return arr
}

func storeN(arr Term, keys []Term, v Term) Term {
	if len(keys) == 1 {
		return tStore(arr, keys[0], v)
	}
	return tStore(arr, keys[0], storeN(tSel(arr, keys[0]), keys[1:], v))
}

func (e *Env) selectField(p place, name string) place {
	// ghost field on the (possibly pointed-to or interface) type?
	if g, base, ok := e.ghostOf(p, name); ok {
		gt := e.x.parseType(g.Type)
		return place{isAddr: true, addr: extendGhost(base, g.Index), T: gt}
	}
	obj, index, _ := types.LookupFieldOrMethod(p.T, true, e.x.prog.pkg.Types, name)
	fv, ok := obj.(*types.Var)
	if !ok || !fv.IsField() {
		e.fail("no field %q in %s", name, p.T)
	}
	for _, idx := range index {
		if pt, ok := p.T.Underlying().(*types.Pointer); ok {
			v := e.toVal(p)
			p = place{isAddr: true, addr: v.L[0], T: pt.Elem()}
		}
		st, ok := p.T.Underlying().(*types.Struct)
		if !ok {
			e.fail("selecting %q from non-struct %s", name, p.T)
		}
		ft := st.Field(idx).Type()
		if p.isAddr {
			p = place{isAddr: true, addr: extend(p.addr, []int{idx}), T: ft}
		} else {
			lo, hi := fieldRange(st, idx)
			p = place{val: Val{T: ft, L: p.val.L[lo:hi]}, T: ft}
		}
	}
	return p
}

// ghostOf resolves name as a ghost field of p's type. The ghost cell lives at
// the object's address (pointer target, interface payload, or struct address).
func (e *Env) ghostOf(p place, name string) (*GhostField, Term, bool) {
	t := p.T
	var owner string
	ptr := false
	if pt, ok := t.Underlying().(*types.Pointer); ok {
		if _, named := t.(*types.Named); !named {
			t = pt.Elem()
			ptr = true
		}
	}
	if n, ok := t.(*types.Named); ok {
		owner = n.Obj().Name()
		if n.Obj().Pkg() != nil && n.Obj().Pkg() != e.x.prog.pkg.Types {
			owner = n.Obj().Pkg().Name() + "." + owner
		}
	} else {
		return nil, "", false
	}
	for _, g := range e.x.prog.spec.Ghosts[owner] {
		if g.Name == name {
			switch {
			case isInterface(t):
				v := e.toVal(p)
				return g, v.L[1], true
			case ptr:
				v := e.toVal(p)
				return g, v.L[0], true
			case p.isAddr:
				return g, p.addr, true
			default:
				e.fail("ghost field %s.%s of a struct value (no address)", owner, name)
			}
		}
	}
	// ghost fields of embedded pointer/struct (e.g. ServerChannel embeds *channel)
	if st, ok := t.Underlying().(*types.Struct); ok {
		for i := 0; i < st.NumFields(); i++ {
			if st.Field(i).Embedded() {
				q := p
				if ptr {
					v := e.toVal(p)
					q = place{isAddr: true, addr: v.L[0], T: t}
				}
				var fp place
				ft := st.Field(i).Type()
				if q.isAddr {
					fp = place{isAddr: true, addr: extend(q.addr, []int{i}), T: ft}
				} else {
					lo, hi := fieldRange(st, i)
					fp = place{val: Val{T: ft, L: q.val.L[lo:hi]}, T: ft}
				}
				if g, b, ok := e.ghostOf(fp, name); ok {
					return g, b, true
				}
			}
		}
	}
	return nil, "", false
}

func (e *Env) coerce(v Val, to types.Type) Val {
	if b, ok := v.T.(*types.Basic); ok && b.Kind() == types.UntypedNil {
		return zeroVal(to)
	}
	if len(v.L) != len(leavesOf(to)) {
		e.fail("cannot use value of type %s as %s", v.T, to)
	}
	return Val{T: to, L: v.L}
}

func (e *Env) evalValue(x ast.Expr) Val {
	switch x := x.(type) {
	case *ast.UnaryExpr:
		switch x.Op {
		case token.NOT:
			return boolVal(tNot(e.evalBool(x.X)))
		case token.SUB:
			v := e.eval(x.X)
			return Val{T: v.T, L: []Term{"(- " + v.L[0] + ")"}}
		case token.AND:
			p := e.evalPlace(x.X)
			if !p.isAddr {
				e.fail("cannot take the address of %s", exprString(x.X))
			}
			return Val{T: types.NewPointer(p.T), L: []Term{p.addr}}
		}
	case *ast.BinaryExpr:
		switch x.Op {
		case token.LAND:
			return boolVal(tAnd(e.evalBool(x.X), e.evalBool(x.Y)))
		case token.LOR:
			return boolVal(tOr(e.evalBool(x.X), e.evalBool(x.Y)))
		}
		var a, b Val
		if missing := func() (m bool) {
			// a comparison that mentions resultof/argof/atreturn of a call that did not happen on this
			// path says nothing about this path (such clauses are about the call when it happens)
			defer func() {
				if r := recover(); r != nil {
					if _, ok := r.(noCallRec); ok {
						m = true
						return
					}
					panic(r)
				}
			}()
			a, b = e.eval(x.X), e.eval(x.Y)
			return false
		}(); missing {
			switch x.Op {
			case token.EQL, token.NEQ, token.LSS, token.LEQ, token.GTR, token.GEQ:
				return boolVal("true")
			}
			panic(noCallRec{})
		}
		if isNilVal(a) && !isNilVal(b) {
			a = zeroVal(b.T)
		} else if isNilVal(b) && !isNilVal(a) {
			b = zeroVal(a.T)
		}
		switch x.Op {
		case token.EQL:
			return boolVal(e.valEq(a, b))
		case token.NEQ:
			return boolVal(tNot(e.valEq(a, b)))
		}
		if len(a.L) != 1 || len(b.L) != 1 {
			e.fail("operator %s on composite values", x.Op)
		}
		isStr := leavesOf(a.T)[0].Sort == "String"
		switch x.Op {
		case token.LSS:
			return boolVal("(< " + a.L[0] + " " + b.L[0] + ")")
		case token.LEQ:
			return boolVal("(<= " + a.L[0] + " " + b.L[0] + ")")
		case token.GTR:
			return boolVal("(> " + a.L[0] + " " + b.L[0] + ")")
		case token.GEQ:
			return boolVal("(>= " + a.L[0] + " " + b.L[0] + ")")
		case token.ADD:
			if isStr {
				return Val{T: a.T, L: []Term{"(str.++ " + a.L[0] + " " + b.L[0] + ")"}}
			}
			return Val{T: a.T, L: []Term{"(+ " + a.L[0] + " " + b.L[0] + ")"}}
		case token.SUB:
			return Val{T: a.T, L: []Term{"(- " + a.L[0] + " " + b.L[0] + ")"}}
		case token.MUL:
			return Val{T: a.T, L: []Term{"(* " + a.L[0] + " " + b.L[0] + ")"}}
		}
		e.fail("unsupported operator %s", x.Op)
	case *ast.CompositeLit:
		t := e.x.typeOfExpr(x.Type)
		v := zeroVal(t)
		st, ok := t.Underlying().(*types.Struct)
		if len(x.Elts) > 0 && !ok {
			e.fail("composite literal with elements of non-struct type %s", t)
		}
		for _, el := range x.Elts {
			kv, ok := el.(*ast.KeyValueExpr)
			if !ok {
				e.fail("composite literal elements must be keyed")
			}
			name := kv.Key.(*ast.Ident).Name
			found := false
			for i := 0; i < st.NumFields(); i++ {
				if st.Field(i).Name() == name {
					lo, hi := fieldRange(st, i)
					fv := e.coerce(e.eval(kv.Value), st.Field(i).Type())
					nl := append([]Term(nil), v.L...)
					copy(nl[lo:hi], fv.L)
					v = Val{T: t, L: nl}
					found = true
				}
			}
			if !found {
				e.fail("no field %s in %s", name, t)
			}
		}
		return v
	case *ast.TypeAssertExpr:
		v := e.eval(x.X)
		if !isInterface(v.T) {
			e.fail("type assertion on non-interface")
		}
		t := e.x.typeOfExpr(x.Type)
		if isPointerLike(t) {
			return Val{T: t, L: []Term{v.L[1]}}
		}
		if isInterface(t) {
			return Val{T: t, L: v.L}
		}
		if isStringKinded(t) {
			return Val{T: t, L: []Term{unboxString(v.L[1])}}
		}
		return e.st.loadValIn(e.cur, v.L[1], t)
	case *ast.CallExpr:
		return e.evalCall(x)
	}
	e.fail("unsupported expression %s (%T)", exprString(x), x)
	panic("unreachable")
}

func isNilVal(v Val) bool {
	b, ok := v.T.(*types.Basic)
	return ok && b.Kind() == types.UntypedNil
}

func (e *Env) valEq(a, b Val) Term {
	if len(a.L) != len(b.L) {
		e.fail("comparing values of different shapes: %s vs %s", a.T, b.T)
	}
	if _, ok := a.T.Underlying().(*types.Slice); ok {
		if a.L[0] == rnil || b.L[0] == rnil {
			return tEq(a.L[0], b.L[0]) // comparison with nil
		}
		// contract-level slice equality: same backing array, offset and length
		return tAnd(tEq(a.L[0], b.L[0]), tEq(a.L[1], b.L[1]), tEq(a.L[2], b.L[2]))
	}
	return valEq(a, b)
}

func (e *Env) evalCall(c *ast.CallExpr) Val {
	name := ""
	switch f := c.Fun.(type) {
	case *ast.Ident:
		name = f.Name
	case *ast.SelectorExpr, *ast.StarExpr, *ast.ParenExpr, *ast.ArrayType:
		// conversion to a (qualified / pointer) type
		t := e.x.typeOfExpr(c.Fun)
		v := e.eval(c.Args[0])
		return e.coerce(v, t)
	}
	arg := func(i int) ast.Expr {
		if i >= len(c.Args) {
			e.fail("%s: missing argument %d", name, i)
		}
		return c.Args[i]
	}
	switch name {
	case "imp_":
		return boolVal(tImp(e.evalBool(arg(0)), e.evalBool(arg(1))))
	case "iff_":
		return boolVal(tEq(e.evalBool(arg(0)), e.evalBool(arg(1))))
	case "ite":
		cnd := e.evalBool(arg(0))
		a, b := e.eval(arg(1)), e.eval(arg(2))
		if isNilVal(a) {
			a = zeroVal(b.T)
		}
		if isNilVal(b) {
			b = zeroVal(a.T)
		}
		if len(a.L) != len(b.L) {
			e.fail("ite branches of different shapes")
		}
		out := Val{T: a.T, L: make([]Term, len(a.L))}
		for i := range a.L {
			out.L[i] = tIte(cnd, a.L[i], b.L[i])
		}
		return out
	case "old":
		if e.old == nil {
			e.fail("old() used where no pre-state exists")
		}
		return e.withCur(e.old).eval(arg(0))
	case "resultof", "atreturn", "argof":
		// resultof("callee"[, i]): the (i-th) result of the latest call of callee on this path;
		// atreturn("callee", e): e evaluated in the state that call left behind
		lit, ok := arg(0).(*ast.BasicLit)
		if !ok || lit.Kind != token.STRING {
			e.fail("%s: first argument must be a string literal naming the callee", name)
		}
		label, _ := strconv.Unquote(lit.Value)
		rec := e.st.lastCall[label]
		if rec == nil {
			panic(noCallRec{})
		}
		if name == "atreturn" {
			return e.withCur(rec.snap).eval(arg(1))
		}
		if name == "argof" {
			// argof("callee", i): the i-th argument (receiver first) of the latest call
			i := 0
			if il, ok := arg(1).(*ast.BasicLit); ok {
				i, _ = strconv.Atoi(il.Value)
			}
			if i >= len(rec.args) {
				e.fail("argof(%q, %d): the call has %d arguments", label, i, len(rec.args))
			}
			return rec.args[i]
		}
		tp, isTuple := rec.res.T.(*types.Tuple)
		if !isTuple {
			return rec.res
		}
		i := 0
		if len(c.Args) > 1 {
			if il, ok := arg(1).(*ast.BasicLit); ok {
				n, _ := strconv.Atoi(il.Value)
				i = n
			}
		}
		if i >= tp.Len() {
			e.fail("resultof(%q, %d): the function has %d results", label, i, tp.Len())
		}
		lo, hi := tupleRange(tp, i)
		return Val{T: tp.At(i).Type(), L: rec.res.L[lo:hi]}
	case "atloop":
		// atloop(e): e evaluated in the heap as it was when the loop was entered
		if e.loopSnap == nil {
			e.fail("atloop() used outside a loop invariant")
		}
		return e.withCur(e.loopSnap).eval(arg(0))
	case "suffixof":
		// suffixof(s, b, k): s is b[k:] (same backing array)
		sv, bv, k := e.eval(arg(0)), e.eval(arg(1)), e.eval(arg(2))
		return boolVal(tAnd(tEq(sv.L[0], bv.L[0]), tEq(sv.L[1], "(+ "+bv.L[1]+" "+k.L[0]+")"), tEq(sv.L[2], "(- "+bv.L[2]+" "+k.L[0]+")")))
	case "atiter":
		if e.iterSnap == nil {
			e.fail("atiter() used outside a loop step/invariant")
		}
		return e.withCur(e.iterSnap).eval(arg(0))
	case "sentch", "recvch":
		// the channel the last value of that key was sent on / received from
		key := exprString(arg(0))
		if g, ok := e.st.ghostInt[name+":"+key+"#0"]; ok {
			return Val{T: e.x.chanElem[name+":"+key], L: []Term{g}}
		}
		return Val{T: tyUntypedNil, L: []Term{rnil}}
	case "nrecv", "lastrecv":
		key := exprString(arg(0))
		if name == "nrecv" {
			if t, ok := e.st.ghostInt["recv:"+key]; ok {
				return intVal(t)
			}
			return intVal("0")
		}
		if t, ok := e.x.chanElem["lastrecv:"+key]; ok {
			v := Val{T: t}
			z := zeroVal(t)
			for i := range leavesOf(t) {
				if g, ok := e.st.ghostInt[fmt.Sprintf("lastrecv:%s#%d", key, i)]; ok {
					v.L = append(v.L, g)
				} else {
					v.L = append(v.L, z.L[i])
				}
			}
			return v
		}
		e.fail("lastrecv(%s): nothing is received from that channel on this path", key)
	case "nsent", "lastsent", "tablewrites", "domatunlock", "domatlock":
		// engine-maintained ghost counters, keyed by "Type.field" written as a selector
		key := exprString(arg(0))
		switch name {
		case "nsent":
			if t, ok := e.st.ghostInt["sent:"+key]; ok {
				return intVal(t)
			}
			return intVal("0")
		case "lastsent":
			if et, ok := e.x.chanElem["lastsent:"+key]; ok && len(leavesOf(et)) > 1 {
				if _, ok := e.st.ghostInt["lastsent:"+key+"#0"]; ok {
					v := Val{T: et}
					for i := range leavesOf(et) {
						v.L = append(v.L, e.st.ghostInt[fmt.Sprintf("lastsent:%s#%d", key, i)])
					}
					return v
				}
			}
			if t, ok := e.st.ghostInt["lastsent:"+key]; ok {
				return Val{T: types.NewPointer(types.NewStruct(nil, nil)), L: []Term{t}}
			}
			return Val{T: tyUntypedNil, L: []Term{rnil}}
		case "tablewrites":
			if t, ok := e.st.ghostInt["writes:"+key]; ok {
				return intVal(t)
			}
			return intVal("0")
		default:
			pfx := "unlockdom:"
			if name == "domatlock" {
				pfx = "lockdom:"
			}
			t, ok := e.st.ghostInt[pfx+key]
			if !ok {
				e.fail("%s(%s): the monitor was never acquired/released on this path", name, key)
			}
			return Val{T: setType(tyString), L: []Term{t}}
		}
	case "ngo", "ncalls":
		lit, ok := arg(0).(*ast.BasicLit)
		if !ok {
			e.fail("%s needs a string literal", name)
		}
		lbl, _ := strconv.Unquote(lit.Value)
		pfx := "go:"
		if name == "ncalls" {
			pfx = "rcall:"
		}
		if t, ok := e.st.ghostInt[pfx+lbl]; ok {
			return intVal(t)
		}
		return intVal("0")
	case "nerrall":
		// nerrall(): calls (in this iteration/path) of ANY function, method or callback under contract that
		// returned a non-nil error. `result != nil ==> nerrall() > 0` says that an error is passed on, not
		// made up: the function fails only when something it called failed.
		var ks []string
		for k := range e.st.ghostInt {
			if strings.HasPrefix(k, "rerr:") && k != "rerr:fmt.Errorf" && k != "rerr:errors.New" {
				ks = append(ks, k) // the error constructors make errors up; they are not failures
			}
		}
		sort.Strings(ks)
		sum := Term("0")
		for _, k := range ks {
			sum = Term("(+ " + string(sum) + " " + string(e.st.ghostInt[k]) + ")")
		}
		return intVal(sum)
	case "ntrue", "nerr":
		// ntrue("callee label") / nerr("callee label"): calls (in this iteration/path) of a
		// function that returned true / a non-nil error
		lit, ok := arg(0).(*ast.BasicLit)
		if !ok {
			e.fail("%s needs a string literal", name)
		}
		lbl, _ := strconv.Unquote(lit.Value)
		pfx := "rtrue:"
		if name == "nerr" {
			pfx = "rerr:"
		}
		if t, ok := e.st.ghostInt[pfx+lbl]; ok {
			return intVal(t)
		}
		return intVal("0")
	case "locked":
		p := e.evalPlace(arg(0))
		if !p.isAddr {
			e.fail("locked() needs an addressable mutex")
		}
		if e.st.held[p.addr] {
			return boolVal("true")
		}
		return boolVal("false")
	case "chancap":
		// chancap(ch): the buffer capacity the channel was made with
		v := e.eval(arg(0))
		return intVal(e.st.loadIn(e.cur, "Int", extendGhost(v.L[0], 1)))
	case "closed":
		v := e.eval(arg(0))
		return boolVal(e.st.loadIn(e.cur, "Bool", extendGhost(v.L[0], 0)))
	case "fresh":
		v := e.eval(arg(0))
		r := v.L[0]
		if isInterface(v.T) {
			r = v.L[1]
		}
		if e.old == nil {
			e.fail("fresh() used where no pre-state exists")
		}
		return boolVal("(> " + tRid(r) + " " + e.old.alloc + ")")
	case "len":
		v := e.eval(arg(0))
		switch v.T.Underlying().(type) {
		case *types.Slice:
			return intVal(v.L[2])
		case *types.Basic:
			return intVal("(str.len " + v.L[0] + ")")
		}
		e.fail("len of %s", v.T)
	case "istype":
		v := e.eval(arg(0))
		if !isInterface(v.T) {
			e.fail("istype on non-interface %s", v.T)
		}
		t := e.x.typeOfExpr(arg(1))
		return boolVal(tEq(v.L[0], tInt(int64(e.x.prog.typeID(t)))))
	case "typednil":
		v := e.eval(arg(0))
		return boolVal(tAnd(tNot(tEq(v.L[0], "0")), tIsNil(v.L[1])))
	case "payloadnil":
		v := e.eval(arg(0))
		return boolVal(tIsNil(v.L[1]))
	case "inset":
		s := e.eval(arg(0))
		k := e.eval(arg(1))
		return boolVal(selectN(s.L[0], k.L))
	case "mapdom":
		// mapdom(m, k): k is a key of map m
		m := e.eval(arg(0))
		mt := m.T.Underlying().(*types.Map)
		k := e.coerce(e.eval(arg(1)), mt.Key())
		ok, _ := e.st.mapLookupIn(e.cur, m, k)
		return boolVal(ok)
	case "allocated":
		// allocated(p): p existed in the pre-state of the enclosing contract
		v := e.eval(arg(0))
		return boolVal("(<= " + tRid(v.L[0]) + " " + e.old.alloc + ")")
	case "elems":
		// elems(s): the set of elements of a slice of string-kinded values (or of
		// interface values boxing such values); slices are treated as immutable
		v := e.eval(arg(0))
		st, ok := v.T.Underlying().(*types.Slice)
		if !ok {
			e.fail("elems of non-slice %s", v.T)
		}
		et := st.Elem()
		if isInterface(et) {
			et = tyString
		}
		if ls := leavesOf(et); len(ls) != 1 || ls[0].Sort != "String" {
			e.fail("elems: element type %s is not string-kinded", st.Elem())
		}
		return Val{T: setType(et), L: []Term{e.st.elemsOf([3]Term{v.L[0], v.L[1], v.L[2]})}}
	case "carried":
		// carried(T): the loop-carried variable of type T at this loop head (rename-proof)
		t := e.x.typeOfExpr(arg(0))
		if v, ok := e.vars["carried:"+typeKey(t)]; ok {
			return v
		}
		e.fail("carried(%s): no unique loop-carried variable of that type here", t)
	case "local":
		// local(T): the unique local variable of type T in scope (rename-proof)
		t := e.x.typeOfExpr(arg(0))
		if v, ok := e.vars["local:"+typeKey(t)]; ok {
			return v
		}
		e.fail("local(%s): no unique local variable of that type in scope here", t)
	case "prefix":
		// prefix(s, k): the first k elements of s (s[:k]); for slices of string-kinded values the
		// element set of the prefix is unfolded one step: elems(s[:k]) == elems(s[:k-1]) ∪ {s[k-1]}
		v := e.eval(arg(0))
		k := e.eval(arg(1)).L[0]
		slt, ok := v.T.Underlying().(*types.Slice)
		if !ok {
			e.fail("prefix of non-slice %s", v.T)
		}
		if ls := leavesOf(slt.Elem()); len(ls) == 1 && ls[0].Sort == "String" {
			key := "prefix|" + v.L[0] + "|" + v.L[1] + "|" + k
			if !e.st.instd[key] {
				e.st.instd[key] = true
				km1 := "(- " + k + " 1)"
				elemAddr := extendIdx(v.L[0], tAddInt(v.L[1], km1))
				x := e.st.loadIn(e.cur, "String", elemAddr)
				e.st.assume(tImp("(> "+k+" 0)", tEq(e.st.elemsOf([3]Term{v.L[0], v.L[1], k}), tStore(e.st.elemsOf([3]Term{v.L[0], v.L[1], km1}), x, "true"))))
			}
		}
		return Val{T: v.T, L: []Term{v.L[0], v.L[1], k}}
	case "alltags":
		// alltags(s, T): every element of the slice of interface values s has dynamic type T
		v := e.eval(arg(0))
		if _, ok := v.T.Underlying().(*types.Slice); !ok {
			e.fail("alltags of non-slice %s", v.T)
		}
		id := e.x.prog.typeID(e.x.typeOfExpr(arg(1)))
		return boolVal(fmt.Sprintf("(forall ((q_ Int)) (=> (select %s q_) (= q_ %d)))", e.st.tagsOf([3]Term{v.L[0], v.L[1], v.L[2]}), id))
	case "subset":
		a, b := e.eval(arg(0)), e.eval(arg(1))
		return boolVal("(forall ((q_ String)) (=> (select " + a.L[0] + " q_) (select " + b.L[0] + " q_)))")
	case "emptyinter":
		a, b := e.eval(arg(0)), e.eval(arg(1))
		return boolVal("(forall ((q_ String)) (not (and (select " + a.L[0] + " q_) (select " + b.L[0] + " q_))))")
	case "emptyset":
		t := setType(e.x.typeOfExpr(arg(0)))
		return Val{T: t, L: []Term{zeroOfSort(leavesOf(t)[0].Sort)}}
	case "setadd":
		sv := e.eval(arg(0))
		k := e.eval(arg(1))
		return Val{T: sv.T, L: []Term{storeN(sv.L[0], k.L, "true")}}
	case "domof":
		m := e.eval(arg(0))
		mt := m.T.Underlying().(*types.Map)
		dom, _, _, _ := mapSorts(mt)
		d := e.st.loadIn(e.cur, dom, extend(m.L[0], []int{0}))
		return Val{T: setType(mt.Key()), L: []Term{tIte(tIsNil(m.L[0]), zeroOfSort(dom), d)}}
	case "box":
		// box(x): x converted to an interface value, as MakeInterface does
		v := e.eval(arg(0))
		it := types.NewInterfaceType(nil, nil)
		tag := tInt(int64(e.x.prog.typeID(v.T)))
		switch {
		case isPointerLike(v.T):
			return Val{T: it, L: []Term{tag, v.L[0]}}
		case isStringKinded(v.T):
			return Val{T: it, L: []Term{tag, boxString(v.L[0])}}
		}
		e.fail("box(%s): only pointer-like and string-kinded values can be boxed in a contract", v.T)
	case "sameobj":
		// sameobj(p, q): p and q point into the same allocation
		a, b := e.eval(arg(0)), e.eval(arg(1))
		ra, rb := a.L[0], b.L[0]
		if isInterface(a.T) {
			ra = a.L[1]
		}
		if isInterface(b.T) {
			rb = b.L[1]
		}
		return boolVal(tAnd(tNot(tIsNil(ra)), tEq(tRid(ra), tRid(rb))))
	case "tagof":
		v := e.eval(arg(0))
		if !isInterface(v.T) {
			e.fail("tagof on non-interface %s", v.T)
		}
		return intVal(v.L[0])
	case "typeid":
		return intVal(tInt(int64(e.x.prog.typeID(e.x.typeOfExpr(arg(0))))))
	case "mapempty":
		m := e.eval(arg(0))
		mt := m.T.Underlying().(*types.Map)
		dom, _, _, _ := mapSorts(mt)
		d := e.st.loadIn(e.cur, dom, extend(m.L[0], []int{0}))
		return boolVal(tOr(tIsNil(m.L[0]), tEq(d, zeroOfSort(dom))))
	case "mapsame":
		a, b := e.eval(arg(0)), e.eval(arg(1))
		mt := a.T.Underlying().(*types.Map)
		dom, val, _, hasVal := mapSorts(mt)
		c := tEq(e.st.loadIn(e.cur, dom, extend(a.L[0], []int{0})), e.st.loadIn(e.cur, dom, extend(b.L[0], []int{0})))
		if hasVal {
			c = tAnd(c, tEq(e.st.loadIn(e.cur, val, extend(a.L[0], []int{1})), e.st.loadIn(e.cur, val, extend(b.L[0], []int{1}))))
		}
		return boolVal(tAnd(tNot(tIsNil(a.L[0])), tNot(tIsNil(b.L[0])), c))
	case "bytes":
		// bytes(b): the content of a byte slice as a string
		v := e.eval(arg(0))
		if _, ok := v.T.Underlying().(*types.Slice); !ok {
			e.fail("bytes() of non-slice %s", v.T)
		}
		e.x.d.DeclareFun("strOf", []string{"Ref", "Int", "Int"}, "String")
		return Val{T: tyString, L: []Term{"(strOf " + v.L[0] + " " + v.L[1] + " " + v.L[2] + ")"}}
	case "strbefore":
		// strbefore(s, sep): s up to the first occurrence of sep (all of s if there is none)
		a, b := e.eval(arg(0)), e.eval(arg(1))
		idx := "(str.indexof " + a.L[0] + " " + b.L[0] + " 0)"
		return Val{T: a.T, L: []Term{tIte("(str.contains "+a.L[0]+" "+b.L[0]+")", "(str.substr "+a.L[0]+" 0 "+idx+")", a.L[0])}}
	case "strafter":
		// strafter(s, sep): s after the first occurrence of sep ("" if there is none)
		a, b := e.eval(arg(0)), e.eval(arg(1))
		idx := "(str.indexof " + a.L[0] + " " + b.L[0] + " 0)"
		start := "(+ " + idx + " (str.len " + b.L[0] + "))"
		return Val{T: a.T, L: []Term{tIte("(str.contains "+a.L[0]+" "+b.L[0]+")", "(str.substr "+a.L[0]+" "+start+" (- (str.len "+a.L[0]+") "+start+"))", tStr(""))}}
	case "strcontains":
		a, b := e.eval(arg(0)), e.eval(arg(1))
		return boolVal("(str.contains " + a.L[0] + " " + b.L[0] + ")")
	case "strindex":
		// strindex(s, sub): position of the first occurrence, -1 if none (strings.Index)
		a, b := e.eval(arg(0)), e.eval(arg(1))
		return intVal("(str.indexof " + a.L[0] + " " + b.L[0] + " 0)")
	case "strbyte":
		// strbyte(c): the one-character string of a byte / code point
		a := e.eval(arg(0))
		return Val{T: tyString, L: []Term{"(str.from_code " + a.L[0] + ")"}}
	}
	if sf, ok := e.x.prog.spec.SpecFns[name]; ok {
		if len(c.Args) != len(sf.Params) {
			e.fail("spec fn %s: want %d arguments", name, len(sf.Params))
		}
		vars := map[string]Val{}
		for i, p := range sf.Params {
			pt := e.x.parseType(p.Type)
			vars[p.Name] = e.coerce(e.eval(c.Args[i]), pt)
		}
		n := *e
		n.vars = vars
		n.what = e.what + " / spec fn " + name
		if sf.Uninterp || (sf.Opaque && !e.x.reveals(sf.Name)) {
			rt := e.x.parseType(sf.RetType)
			var argSorts []string
			var args []Term
			for _, p := range sf.Params {
				v := vars[p.Name]
				for i, l := range leavesOf(v.T) {
					argSorts = append(argSorts, l.Sort)
					args = append(args, v.L[i])
				}
			}
			out := Val{T: rt}
			for i, l := range leavesOf(rt) {
				uf := fmt.Sprintf("uf_%s_%d", sanitize(sf.Name), i)
				e.x.d.DeclareFun(uf, argSorts, l.Sort)
				out.L = append(out.L, "("+uf+" "+strings.Join(args, " ")+")")
			}
			return out
		}
		if sf.Rec {
			return n.evalRec(sf, vars)
		}
		if sf.Opaque {
			// revealed here: the uninterpreted symbol equals its body
			rt := e.x.parseType(sf.RetType)
			var argSorts []string
			var args []Term
			for _, p := range sf.Params {
				v := vars[p.Name]
				for i, l := range leavesOf(v.T) {
					argSorts = append(argSorts, l.Sort)
					args = append(args, v.L[i])
				}
			}
			body := n.coerce(n.eval(sf.Body.Expr), rt)
			out := Val{T: rt}
			for i, l := range leavesOf(rt) {
				uf := fmt.Sprintf("uf_%s_%d", sanitize(sf.Name), i)
				e.x.d.DeclareFun(uf, argSorts, l.Sort)
				app := "(" + uf + " " + strings.Join(args, " ") + ")"
				e.st.assume(tEq(app, body.L[i]))
				out.L = append(out.L, app)
			}
			return out
		}
		v := n.eval(sf.Body.Expr)
		if sf.RetType != "" {
			v = n.coerce(v, e.x.parseType(sf.RetType))
		}
		return v
	}
	// conversion T(x) with T a type name
	if t := e.x.lookupTypeName(name); t != nil {
		v := e.eval(arg(0))
		return e.coerce(v, t)
	}
	e.fail("unknown function %q in contract", name)
	panic("unreachable")
}

// evalRec: a recursive spec fn is an uninterpreted function of the leaves of
// its arguments; its definition is unfolded once at every application (§3.2).
func (e *Env) evalRec(sf *SpecFn, vars map[string]Val) Val {
	rt := e.x.parseType(sf.RetType)
	rl := leavesOf(rt)
	if len(rl) == 0 {
		e.fail("recursive spec fn %s must return a value", sf.Name)
	}
	var argSorts []string
	var args []Term
	for _, p := range sf.Params {
		v := vars[p.Name]
		for i, l := range leavesOf(v.T) {
			argSorts = append(argSorts, l.Sort)
			args = append(args, v.L[i])
		}
	}
	// heaps are implicit arguments: the function may read memory, so the
	// uninterpreted symbol is applied to the heap versions it is evaluated in
	// (two applications under different heaps are unrelated: sound).
	for _, hsort := range []string{"Bool", "Int", "String", "Ref"} {
		hs := e.st.heaps
		if e.cur != nil {
			hs = e.cur.heaps
		}
		h := e.st.heapOf(hs, hsort)
		argSorts = append(argSorts, "(Array Ref "+hsort+")")
		args = append(args, h.name)
	}
	out := Val{T: rt}
	for i, l := range rl {
		uf := "sf_" + sanitize(sf.Name)
		if len(rl) > 1 {
			uf = fmt.Sprintf("sf_%s_%d", sanitize(sf.Name), i)
		}
		e.x.d.DeclareFun(uf, argSorts, l.Sort)
		out.L = append(out.L, "("+uf+" "+strings.Join(args, " ")+")")
	}
	key := "rec|" + strings.Join(out.L, "|")
	if !e.st.instd[key] && e.x.recDepth < 3 {
		e.st.instd[key] = true
		e.x.recDepth++
		e.x.inRec++
		body := e.coerce(e.eval(sf.Body.Expr), rt)
		e.x.inRec--
		e.x.recDepth--
		for i := range out.L {
			e.st.assume(tEq(out.L[i], body.L[i]))
		}
	}
	return out
}

// ---- types in contract text ------------------------------------------------

func (x *Exec) lookupTypeName(name string) types.Type {
	if o := types.Universe.Lookup(name); o != nil {
		if tn, ok := o.(*types.TypeName); ok {
			return tn.Type()
		}
	}
	return x.prog.lookupType(name)
}

func (x *Exec) parseType(s string) types.Type {
	s = strings.TrimSpace(s)
	if t, ok := x.typeCache[s]; ok {
		return t
	}
	var t types.Type
	if strings.HasPrefix(s, "set[") && strings.HasSuffix(s, "]") {
		t = setType(x.parseType(s[4 : len(s)-1]))
	} else {
		e, err := parser.ParseExpr(s)
		if err != nil {
			panic(specErr{fmt.Sprintf("bad type %q: %v", s, err)})
		}
		t = x.typeOfExpr(e)
	}
	x.typeCache[s] = t
	return t
}

func (x *Exec) typeOfExpr(e ast.Expr) types.Type {
	switch e := e.(type) {
	case *ast.Ident:
		if t := x.lookupTypeName(e.Name); t != nil {
			return t
		}
	case *ast.ParenExpr:
		return x.typeOfExpr(e.X)
	case *ast.StarExpr:
		return types.NewPointer(x.typeOfExpr(e.X))
	case *ast.ArrayType:
		if e.Len == nil {
			return types.NewSlice(x.typeOfExpr(e.Elt))
		}
	case *ast.MapType:
		return types.NewMap(x.typeOfExpr(e.Key), x.typeOfExpr(e.Value))
	case *ast.SelectorExpr:
		if id, ok := e.X.(*ast.Ident); ok {
			if ip := x.prog.importedPkg(id.Name); ip != nil {
				if tn, ok := ip.Scope().Lookup(e.Sel.Name).(*types.TypeName); ok {
					return tn.Type()
				}
			}
		}
	case *ast.StructType:
		if e.Fields == nil || len(e.Fields.List) == 0 {
			return types.NewStruct(nil, nil)
		}
	case *ast.InterfaceType:
		return types.NewInterfaceType(nil, nil)
	case *ast.FuncType:
		var ps, rs []*types.Var
		if e.Params != nil {
			for _, f := range e.Params.List {
				ps = append(ps, types.NewVar(token.NoPos, nil, "", x.typeOfExpr(f.Type)))
			}
		}
		if e.Results != nil {
			for _, f := range e.Results.List {
				rs = append(rs, types.NewVar(token.NoPos, nil, "", x.typeOfExpr(f.Type)))
			}
		}
		return types.NewSignatureType(nil, nil, nil, types.NewTuple(ps...), types.NewTuple(rs...), false)
	case *ast.ChanType:
		dir := types.SendRecv
		if e.Dir == ast.SEND {
			dir = types.SendOnly
		} else if e.Dir == ast.RECV {
			dir = types.RecvOnly
		}
		return types.NewChan(dir, x.typeOfExpr(e.Value))
	}
	panic(specErr{fmt.Sprintf("unknown type expression %s", exprString(e))})
}

var setTypes = map[string]*types.Named{}

func setType(elem types.Type) types.Type {
	k := typeKey(elem)
	if t, ok := setTypes[k]; ok {
		return t
	}
	tn := types.NewTypeName(token.NoPos, nil, "set·"+k, nil)
	t := types.NewNamed(tn, types.NewStruct(nil, nil), nil)
	setTypes[k] = t
	// register leaves: one array leaf
	kl := leavesOf(elem)
	sort := "Bool"
	for i := len(kl) - 1; i >= 0; i-- {
		sort = fmt.Sprintf("(Array %s %s)", kl[i].Sort, sort)
	}
	leafCache[typeKey(t)] = []Leaf{{Sort: sort, Kind: LkPlain, T: t}}
	return t
}

func isSetType(t types.Type) bool {
	n, ok := t.(*types.Named)
	return ok && strings.HasPrefix(n.Obj().Name(), "set·")
}


var mapObjTypes = map[string]*types.Named{}

// mapObjType: synthetic type whose leaves are the two cells of a map object.
func mapObjType(mt *types.Map) types.Type {
	k := typeKey(mt)
	if t, ok := mapObjTypes[k]; ok {
		return t
	}
	tn := types.NewTypeName(token.NoPos, nil, "mapobj·"+k, nil)
	t := types.NewNamed(tn, types.NewStruct(nil, nil), nil)
	mapObjTypes[k] = t
	dom, val, _, hasVal := mapSorts(mt)
	ls := []Leaf{{Path: []int{0}, Sort: dom, Kind: LkPlain, T: t}}
	if hasVal {
		ls = append(ls, Leaf{Path: []int{1}, Sort: val, Kind: LkPlain, T: t})
	}
	leafCache[typeKey(t)] = ls
	return t
}
