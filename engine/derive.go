package main

// Mechanical derivation of the encoding/json wire contract of a raw struct
// (DESIGN.md §3.7): given `func verifWire_X(in *X) (out *X, err error)` with a
// `derive wire` clause, the ensures clauses are generated on every run from the
// field types and struct tags of X following encoding/json's documented rules.
// The result is an assumption about the library (trusted, validated separately
// by the bounded differential test), not about the repository's code.

import (
	"fmt"
	"go/types"
	"reflect"
	"strings"
)

func (p *Program) deriveAll() error {
	for _, name := range p.spec.Order {
		fs := p.spec.Funcs[name]
		if fs.Derive == "" {
			continue
		}
		fn := p.funcs[name]
		if fn == nil {
			return fmt.Errorf("derive: function %s not found", name)
		}
		if fs.Derive != "wire" {
			return fmt.Errorf("derive: unknown derivation %q", fs.Derive)
		}
		if len(fn.Params) != 1 {
			return fmt.Errorf("derive wire: %s must take one pointer parameter", name)
		}
		pt, ok := fn.Params[0].Type().Underlying().(*types.Pointer)
		if !ok {
			return fmt.Errorf("derive wire: %s: parameter is not a pointer", name)
		}
		st, ok := pt.Elem().Underlying().(*types.Struct)
		if !ok {
			return fmt.Errorf("derive wire: %s: parameter does not point to a struct", name)
		}
		in := fn.Params[0].Name()
		clauses, okConds, err := p.deriveWire(st, in, "out")
		if err != nil {
			return fmt.Errorf("derive wire %s: %v", name, err)
		}
		fs.Trusted = true
		fs.ModSet = true
		add := func(text string) error {
			c, err := p.spec.mkClause(text, fs.File, fs.Line)
			if err != nil {
				return err
			}
			fs.Ens = append(fs.Ens, c)
			p.spec.Assumes = append(p.spec.Assumes, "derived wire contract "+name+": "+text)
			return nil
		}
		okc := "true"
		if len(okConds) > 0 {
			okc = strings.Join(okConds, " && ")
		}
		if err := add(fmt.Sprintf("%s != nil && (%s) ==> err == nil", in, okc)); err != nil {
			return err
		}
		if err := add("err == nil ==> out != nil && fresh(out)"); err != nil {
			return err
		}
		for _, c := range clauses {
			if err := add("err == nil ==> (" + c + ")"); err != nil {
				return err
			}
		}
		fs.Notes = append(fs.Notes, fmt.Sprintf("derived from %d fields of %s", st.NumFields(), pt.Elem()))
	}
	return nil
}

func implementsText(t types.Type) bool {
	ms := types.NewMethodSet(types.NewPointer(t))
	has := func(n string) bool {
		for i := 0; i < ms.Len(); i++ {
			if ms.At(i).Obj().Name() == n {
				return true
			}
		}
		return false
	}
	return has("MarshalText") && has("UnmarshalText")
}

func isRawMessage(t types.Type) bool {
	n, ok := t.(*types.Named)
	return ok && n.Obj().Name() == "RawMessage" && n.Obj().Pkg() != nil && n.Obj().Pkg().Path() == "encoding/json"
}

func isPlainBasic(t types.Type) bool {
	b, ok := t.Underlying().(*types.Basic)
	return ok && b.Info()&(types.IsString|types.IsInteger|types.IsBoolean) != 0
}

func plainStruct(t types.Type) bool {
	st, ok := t.Underlying().(*types.Struct)
	if !ok || implementsText(t) {
		return false
	}
	for i := 0; i < st.NumFields(); i++ {
		f := st.Field(i)
		tag := reflect.StructTag(st.Tag(i)).Get("json")
		if tag == "-" || !f.Exported() || !isPlainBasic(f.Type()) || implementsText(f.Type()) {
			return false
		}
	}
	return true
}

func shortTypeName(t types.Type) string {
	if n, ok := t.(*types.Named); ok {
		return n.Obj().Name()
	}
	return sanitize(t.String())
}

// deriveWire returns per-field clauses relating out to in, and the conditions
// under which the encode+decode succeeds.
func (p *Program) deriveWire(st *types.Struct, in, out string) (clauses []string, okConds []string, err error) {
	seen := map[string]int{}
	for i := 0; i < st.NumFields(); i++ {
		name, _ := jsonName(st, i)
		if name != "-" {
			seen[name]++
		}
	}
	for i := 0; i < st.NumFields(); i++ {
		f := st.Field(i)
		name, omit := jsonName(st, i)
		fi, fo := in+"."+f.Name(), out+"."+f.Name()
		if name == "-" || !f.Exported() || seen[name] > 1 {
			// the field does not travel: it comes back as the zero value
			clauses = append(clauses, zeroClause(fo, f.Type()))
			continue
		}
		ft := f.Type()
		if pt, ok := ft.Underlying().(*types.Pointer); ok {
			et := pt.Elem()
			switch {
			case isRawMessage(et):
				// stated only for valid JSON behind the pointer: a nil or otherwise invalid RawMessage
				// is encoded as null or rejected, which the contract leaves open (found by the bounded validation)
				clauses = append(clauses,
					fmt.Sprintf("(%s != nil ==> jsonValid(bytes(*%s))) ==> ((%s == nil) == (%s == nil || bytes(*%s) == \"null\"))", fi, fi, fo, fi, fi),
					fmt.Sprintf("%s != nil ==> fresh(%s)", fo, fo),
					fmt.Sprintf("%s != nil && %s != nil && jsonValid(bytes(*%s)) ==> bytes(*%s) == bytes(*%s)", fo, fi, fi, fo, fi))
				okConds = append(okConds, fmt.Sprintf("(%s != nil ==> jsonValid(bytes(*%s)))", fi, fi))
			case implementsText(et):
				tn := shortTypeName(et)
				if _, isStruct := et.Underlying().(*types.Struct); isStruct && tn == "URI" {
					clauses = append(clauses,
						fmt.Sprintf("(%s == nil) == (%s == nil)", fo, fi),
						fmt.Sprintf("%s != nil ==> fresh(%s)", fo, fo),
						fmt.Sprintf("%s != nil && textOK_%s(%s) ==> textOf_%s(%s) == textOf_%s(%s) && parsed_%s(%s)", fo, tn, fi, tn, fo, tn, fi, tn, fo))
					okConds = append(okConds, fmt.Sprintf("(%s != nil ==> textOK_%s(%s))", fi, tn, fi))
				} else {
					// encoding/json calls MarshalText on the value and UnmarshalText on the text:
					// the decoded value is textRT_T(v) := parse_T(string_T(v)), defined (opaque) in the contract file
					clauses = append(clauses,
						fmt.Sprintf("(%s == nil) == (%s == nil)", fo, fi),
						fmt.Sprintf("%s != nil ==> fresh(%s) && *%s == textRT_%s(*%s)", fo, fo, fo, tn, fi))
					okConds = append(okConds, fmt.Sprintf("(%s != nil ==> textDecodes_%s(*%s))", fi, tn, fi))
				}
			case isPlainBasic(et) || plainStruct(et):
				clauses = append(clauses,
					fmt.Sprintf("(%s == nil) == (%s == nil)", fo, fi),
					fmt.Sprintf("%s != nil ==> fresh(%s) && *%s == *%s", fo, fo, fo, fi))
			default:
				return nil, nil, fmt.Errorf("field %s: no wire rule for pointer to %s", f.Name(), et)
			}
			continue
		}
		switch u := ft.Underlying().(type) {
		case *types.Basic:
			if !isPlainBasic(ft) {
				return nil, nil, fmt.Errorf("field %s: no wire rule for %s", f.Name(), ft)
			}
			if implementsText(ft) {
				okConds = append(okConds, fmt.Sprintf("textOK_%s(%s)", shortTypeName(ft), fi))
			}
			clauses = append(clauses, fmt.Sprintf("%s == %s", fo, fi))
		case *types.Map:
			if !isPlainBasic(u.Key()) || !isPlainBasic(u.Elem()) {
				return nil, nil, fmt.Errorf("field %s: no wire rule for %s", f.Name(), ft)
			}
			if omit {
				clauses = append(clauses,
					fmt.Sprintf("mapempty(%s) ==> %s == nil", fi, fo),
					fmt.Sprintf("!mapempty(%s) ==> fresh(%s) && mapsame(%s, %s)", fi, fo, fo, fi))
			} else {
				clauses = append(clauses,
					fmt.Sprintf("%s == nil ==> %s == nil", fi, fo),
					fmt.Sprintf("%s != nil ==> fresh(%s) && mapsame(%s, %s)", fi, fo, fo, fi))
			}
		case *types.Slice:
			if !isPlainBasic(u.Elem()) || implementsText(u.Elem()) {
				return nil, nil, fmt.Errorf("field %s: no wire rule for %s", f.Name(), ft)
			}
			tn := shortTypeName(u.Elem())
			if omit {
				clauses = append(clauses, fmt.Sprintf("len(%s) == 0 ==> %s == nil", fi, fo))
			} else {
				clauses = append(clauses, fmt.Sprintf("%s == nil ==> %s == nil", fi, fo),
					fmt.Sprintf("%s != nil && len(%s) == 0 ==> %s != nil && len(%s) == 0", fi, fi, fo, fo))
			}
			clauses = append(clauses, fmt.Sprintf("len(%s) > 0 ==> fresh(%s) && len(%s) == len(%s) && seq_%s(%s) == seq_%s(%s)", fi, fo, fo, fi, tn, fo, tn, fi))
		default:
			return nil, nil, fmt.Errorf("field %s: no wire rule for %s", f.Name(), ft)
		}
	}
	return clauses, okConds, nil
}

func deref(et types.Type, e string) string {
	if _, isStruct := et.Underlying().(*types.Struct); isStruct && shortTypeName(et) == "URI" {
		return e // URI's text functions take the pointer
	}
	return "*" + e
}

func zeroClause(fo string, t types.Type) string {
	switch t.Underlying().(type) {
	case *types.Pointer, *types.Map, *types.Slice, *types.Interface:
		return fo + " == nil"
	case *types.Basic:
		b := t.Underlying().(*types.Basic)
		switch {
		case b.Info()&types.IsString != 0:
			return fo + ` == ""`
		case b.Info()&types.IsBoolean != 0:
			return fo + " == false"
		default:
			return fo + " == 0"
		}
	}
	return "true"
}

func jsonName(st *types.Struct, i int) (string, bool) {
	tag := reflect.StructTag(st.Tag(i)).Get("json")
	if tag == "-" {
		return "-", false
	}
	parts := strings.Split(tag, ",")
	name := parts[0]
	if name == "" {
		name = st.Field(i).Name()
	}
	omit := false
	for _, o := range parts[1:] {
		if o == "omitempty" {
			omit = true
		}
	}
	return name, omit
}
