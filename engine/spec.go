package main

// Contract files: `//@` lines of /repo/verif_contracts.go and plain lines of
// /verif/contracts/extern.spec. See DESIGN.md Appendix A.

import (
	"bufio"
	"fmt"
	"go/ast"
	"go/parser"
	"os"
	"regexp"
	"strconv"
	"strings"
)

type Clause struct {
	Text  string
	Expr  ast.Expr
	Props []string // property ids this clause belongs to (empty = the block's props)
	Label string
	Bound string // `forall NAME : EXPR`: an integer variable bound over the whole clause (ensures only)
	File  string
	Line  int
}

type LoopSpec struct {
	Invs     []*Clause
	Modifies []*Clause // extra havoc locations
	Steps    []*Clause // obligations at the back edge about one iteration (counters reset at the head)
	Soft     bool      // Invs are inferred candidates (houdini.go), one conjunct per clause, Label = candidate key
}

type FuncSpec struct {
	Kind    string // func | extern | method | callback | lemma
	Name    string
	Params  []string // names, for extern/method/callback (receiver first)
	Results []string
	Props   []string
	Req     []*Clause
	Ens     []*Clause
	Checks  []*Clause // checked at every return like ensures, but never assumed by callers (path-local ghosts)
	Mod     []*Clause // location expressions
	ModSet  bool      // a modifies clause was given
	ModAll  bool      // "modifies everything"
	ModGhosts bool    // "modifies ghosts": any ghost cell (records kept on envelopes handed to user code)
	Inline  map[string]bool // callees whose body is verified in place instead of through their contract
	ReturnsChan string // accessor returning a channel held in a struct field ("channel.inMsgChan")
	Pure    bool
	Derive  string // "wire": ensures clauses are derived mechanically (derive.go)
	Trusted bool // body is not verified; contract is an assumption
	PanicIf []*Clause
	Loops   map[int]*LoopSpec
	OnCall  map[string][]*Clause // caller-side obligations before calls with the given label
	OnRef   map[string][]*Clause // obligations where a function value of the named function is created
	GhostInit map[string][]*Clause // assumptions about a freshly allocated local (by source name)
	LocalChanInv map[string]*Clause // channel invariant of a local channel variable (by source name)
	EntryGhost [][2]*Clause    // ghost bindings established at function entry: loc = value
	Reveals []string // opaque spec fns whose bodies are visible while verifying this function
	Sites   []string // callback role sites
	Notes   []string
	File    string
	Line    int
}

type SpecFn struct {
	Name    string
	Params  []SpecParam
	RetType string
	Body    *Clause
	Rec     bool
	Uninterp bool
	Opaque   bool // body visible only in functions that `reveals` it; an uninterpreted symbol elsewhere
	GoBody   string // Go counterpart of an uninterpreted spec fn, used only by replays
}

type SpecParam struct{ Name, Type string }

type GhostField struct {
	Owner string // type name (interface or struct), package-relative
	Name  string
	Type  string
	Index int
}

type CensusSpec struct {
	Kind    string // callers | writers
	Target  string
	Allowed []string
	Props   []string
	File    string
	Line    int
}

type Monitor struct {
	Owner    string
	Mutex    string
	Protects []string
	Inv      *Clause // for a protected map: invariant over each entry (k, v)
}

type Spec struct {
	Funcs    map[string]*FuncSpec // in-repo functions
	Externs  map[string]*FuncSpec
	Methods  map[string]*FuncSpec // "Transport.Send"
	Roles    map[string]*FuncSpec // callback roles by name
	SpecFns  map[string]*SpecFn
	Ghosts   map[string][]*GhostField // by owner
	Monitors []*Monitor
	ChanInvs map[string]*Clause // "channel.inMsgChan" -> invariant over v
	Writers  map[string][]string
	Callers  map[string][]string
	MapInvs  map[string]*Clause // global map variable -> invariant over its values (v), assumed at lookups
	GlobalGhosts map[string]*GhostField
	Census   []*CensusSpec
	GlobalInvs []*Clause // facts about package-level variables that are never written after initialisation
	Assumes  []string // every assumption-like clause, for the pre-report scan
	Order    []string
	nGhost   int
}

func newSpec() *Spec {
	return &Spec{Funcs: map[string]*FuncSpec{}, Externs: map[string]*FuncSpec{}, Methods: map[string]*FuncSpec{},
		Roles: map[string]*FuncSpec{}, SpecFns: map[string]*SpecFn{}, Ghosts: map[string][]*GhostField{},
		ChanInvs: map[string]*Clause{}, MapInvs: map[string]*Clause{}, GlobalGhosts: map[string]*GhostField{}, Writers: map[string][]string{}, Callers: map[string][]string{}}
}

var propTagRe = regexp.MustCompile(`^\[([A-Za-z0-9, ]+)\]\s*`)
var forallRe = regexp.MustCompile(`^forall\s+([A-Za-z_][A-Za-z0-9_]*)\s+:\s+`)
var labelRe = regexp.MustCompile(`^@([A-Za-z0-9_.-]+)\s+`)

func (s *Spec) mkClause(text, file string, line int) (*Clause, error) {
	c := &Clause{File: file, Line: line}
	if m := propTagRe.FindStringSubmatch(text); m != nil {
		for _, p := range strings.Split(m[1], ",") {
			c.Props = append(c.Props, strings.TrimSpace(p))
		}
		text = text[len(m[0]):]
	}
	if m := labelRe.FindStringSubmatch(text); m != nil {
		c.Label = m[1]
		text = text[len(m[0]):]
	}
	c.Text = text
	if m := forallRe.FindStringSubmatch(text); m != nil {
		c.Bound = m[1]
		text = text[len(m[0]):]
	}
	rw, err := rewriteImplications(text)
	if err != nil {
		return nil, fmt.Errorf("%s:%d: %v", file, line, err)
	}
	e, err := parser.ParseExpr(rw)
	if err != nil {
		return nil, fmt.Errorf("%s:%d: cannot parse %q: %v", file, line, rw, err)
	}
	c.Expr = e
	return c, nil
}

// rewriteImplications turns `A ==> B` into imp_(A, B) and `A <==> B` into iff_(A, B),
// respecting parentheses, brackets, braces, commas and string literals.
func rewriteImplications(s string) (string, error) {
	out, rest, err := rwSeq(s, 0)
	if err != nil {
		return "", err
	}
	if rest != len(s) {
		return "", fmt.Errorf("unbalanced expression %q", s)
	}
	return out, nil
}

// rwSeq rewrites a comma-separated sequence until an unmatched closer or end.
func rwSeq(s string, i int) (string, int, error) {
	var segs []string
	var cur strings.Builder
	flush := func() { segs = append(segs, rwSegment(cur.String())); cur.Reset() }
	for i < len(s) {
		c := s[i]
		switch c {
		case '"', '`':
			j := i + 1
			for j < len(s) && s[j] != c {
				if s[j] == '\\' && c == '"' {
					j++
				}
				j++
			}
			if j >= len(s) {
				return "", 0, fmt.Errorf("unterminated string in %q", s)
			}
			cur.WriteString(s[i : j+1])
			i = j + 1
		case '(', '[', '{':
			inner, j, err := rwSeq(s, i+1)
			if err != nil {
				return "", 0, err
			}
			if j >= len(s) {
				return "", 0, fmt.Errorf("unbalanced %q", s)
			}
			cur.WriteByte(c)
			cur.WriteString(inner)
			cur.WriteByte(s[j])
			i = j + 1
		case ')', ']', '}':
			flush()
			return strings.Join(segs, ","), i, nil
		case ',':
			flush()
			i++
		default:
			cur.WriteByte(c)
			i++
		}
	}
	flush()
	return strings.Join(segs, ","), i, nil
}

// rwSegment handles one comma-free segment whose nested groups are already rewritten.
func rwSegment(seg string) string {
	if parts := splitTop(seg, "<==>"); len(parts) > 1 {
		r := rwSegment(parts[len(parts)-1])
		for k := len(parts) - 2; k >= 0; k-- {
			r = "iff_(" + rwSegment(parts[k]) + ", " + r + ")"
		}
		return r
	}
	if parts := splitTop(seg, "==>"); len(parts) > 1 {
		r := parts[len(parts)-1]
		for k := len(parts) - 2; k >= 0; k-- {
			r = "imp_(" + parts[k] + ", " + r + ")"
		}
		return r
	}
	return seg
}

func splitTop(s, op string) []string {
	var parts []string
	depth := 0
	last := 0
	inStr := byte(0)
	for i := 0; i < len(s); i++ {
		c := s[i]
		if inStr != 0 {
			if c == '\\' && inStr == '"' {
				i++
			} else if c == inStr {
				inStr = 0
			}
			continue
		}
		switch c {
		case '"', '`':
			inStr = c
		case '(', '[', '{':
			depth++
		case ')', ']', '}':
			depth--
		default:
			if depth == 0 && strings.HasPrefix(s[i:], op) {
				if op == "==>" && i > 0 && s[i-1] == '<' {
					continue
				}
				parts = append(parts, s[last:i])
				last = i + len(op)
				i += len(op) - 1
			}
		}
	}
	parts = append(parts, s[last:])
	return parts
}

var headerRe = regexp.MustCompile(`^(func|extern|method|callback|lemma)\s+(\S.*)$`)
var sigRe = regexp.MustCompile(`^(.*?)\(([^()]*)\)\s*(?:\(([^()]*)\))?\s*$`)

func splitNames(s string) []string {
	var out []string
	for _, p := range strings.Split(s, ",") {
		p = strings.TrimSpace(p)
		if p != "" {
			out = append(out, p)
		}
	}
	return out
}

func (s *Spec) load(path string, prefix string) error {
	f, err := os.Open(path)
	if err != nil {
		return err
	}
	defer f.Close()
	sc := bufio.NewScanner(f)
	sc.Buffer(make([]byte, 1<<20), 1<<20)
	var cur *FuncSpec
	var curOwner string // interface/struct block
	ln := 0
	var pending string
	var pendingLine int
	handle := func(line string, ln int) error {
		fields := strings.Fields(line)
		if len(fields) == 0 {
			return nil
		}
		kw := fields[0]
		rest := strings.TrimSpace(line[len(kw):])
		mk := func() (*Clause, error) { return s.mkClause(rest, path, ln) }
		switch kw {
		case "func", "extern", "method", "callback", "lemma":
			fs := &FuncSpec{Kind: kw, Loops: map[int]*LoopSpec{}, File: path, Line: ln}
			if kw == "callback" {
				// callback role NAME(params) (results) : sites
				r := strings.TrimPrefix(rest, "role ")
				sites := ""
				if i := strings.Index(r, ":"); i >= 0 {
					sites = r[i+1:]
					r = strings.TrimSpace(r[:i])
				}
				m := sigRe.FindStringSubmatch(r)
				if m == nil {
					return fmt.Errorf("%s:%d: bad callback header", path, ln)
				}
				fs.Name = strings.TrimSpace(m[1])
				fs.Params = splitNames(m[2])
				fs.Results = splitNames(m[3])
				fs.Sites = splitNames(sites)
				s.Roles[fs.Name] = fs
			} else if kw == "func" || kw == "lemma" {
				fs.Name = rest
				// optional: `func NAME :: (params) (results)` pins the names the contract uses for the
				// receiver, the parameters and the results, so that renaming them in the source does not
				// invalidate the contract (they are bound by position)
				if i := strings.Index(rest, " :: "); i >= 0 {
					fs.Name = strings.TrimSpace(rest[:i])
					m := sigRe.FindStringSubmatch("x" + strings.TrimSpace(rest[i+4:]))
					if m == nil {
						return fmt.Errorf("%s:%d: bad signature after '::' (want (params) (results))", path, ln)
					}
					fs.Params = splitNames(m[2])
					fs.Results = splitNames(m[3])
				}
				if prev, ok := s.Funcs[fs.Name]; ok {
					if len(fs.Params) > 0 && len(prev.Params) == 0 {
						prev.Params, prev.Results = fs.Params, fs.Results
					}
					// a later block for the same function adds clauses to the first one
					cur = prev
					curOwner = ""
					return nil
				}
				s.Funcs[fs.Name] = fs
				s.Order = append(s.Order, fs.Name)
			} else {
				m := sigRe.FindStringSubmatch(rest)
				if m == nil {
					return fmt.Errorf("%s:%d: bad %s header %q (want name(params) (results))", path, ln, kw, rest)
				}
				fs.Name = strings.TrimSpace(m[1])
				fs.Params = splitNames(m[2])
				fs.Results = splitNames(m[3])
				if kw == "extern" {
					s.Externs[fs.Name] = fs
				} else {
					s.Methods[fs.Name] = fs
				}
			}
			cur = fs
			curOwner = ""
			return nil
		case "interface", "struct":
			curOwner = rest
			cur = nil
			return nil
		case "spec":
			// spec fn NAME(p T, q U) R = expr
			r := strings.TrimSpace(strings.TrimPrefix(rest, "fn"))
			eq := strings.Index(r, " = ")
			if eq < 0 {
				return fmt.Errorf("%s:%d: spec fn without body", path, ln)
			}
			head, body := strings.TrimSpace(r[:eq]), strings.TrimSpace(r[eq+3:])
			op := strings.Index(head, "(")
			cp := -1
			depth := 0
			for i := op; i >= 0 && i < len(head); i++ {
				if head[i] == '(' {
					depth++
				} else if head[i] == ')' {
					depth--
					if depth == 0 {
						cp = i
						break
					}
				}
			}
			if op < 0 || cp < op {
				return fmt.Errorf("%s:%d: bad spec fn header", path, ln)
			}
			sf := &SpecFn{Name: strings.TrimSpace(head[:op]), RetType: strings.TrimSpace(head[cp+1:])}
			if strings.HasPrefix(sf.Name, "rec ") {
				sf.Rec = true
				sf.Name = strings.TrimSpace(sf.Name[4:])
			}
			if strings.HasPrefix(sf.Name, "opaque ") {
				sf.Opaque = true
				sf.Name = strings.TrimSpace(sf.Name[7:])
			}
			for _, p := range splitNames(head[op+1 : cp]) {
				fs := strings.SplitN(p, " ", 2)
				if len(fs) != 2 {
					return fmt.Errorf("%s:%d: bad spec fn parameter %q", path, ln, p)
				}
				sf.Params = append(sf.Params, SpecParam{fs[0], strings.TrimSpace(fs[1])})
			}
			if strings.HasPrefix(body, "uninterpreted") {
				sf.Uninterp = true
				if i := strings.Index(body, "go:"); i >= 0 {
					sf.GoBody = strings.TrimSpace(body[i+3:])
				}
			} else {
				// `... go: expr` after the body gives the replay a Go counterpart of a spec fn it cannot
				// print itself (recursive definitions)
				if i := strings.Index(body, " go: "); i >= 0 {
					sf.GoBody = strings.TrimSpace(body[i+5:])
					body = strings.TrimSpace(body[:i])
				}
				c, err := s.mkClause(body, path, ln)
				if err != nil {
					return err
				}
				sf.Body = c
			}
			s.SpecFns[sf.Name] = sf
			cur = nil
			return nil
		case "ghost":
			if len(fields) >= 4 && fields[1] == "global" {
				s.nGhost++
				s.GlobalGhosts[fields[2]] = &GhostField{Owner: "", Name: fields[2], Type: strings.Join(fields[3:], " "), Index: s.nGhost}
				return nil
			}
			// ghost field NAME TYPE   (inside interface/struct block)
			if curOwner == "" || len(fields) < 4 || fields[1] != "field" {
				return fmt.Errorf("%s:%d: ghost field outside interface/struct block", path, ln)
			}
			// ghost indices are unique across all owners, so ghost cells of different
			// model fields never coincide even if two owners share an address
			s.nGhost++
			g := &GhostField{Owner: curOwner, Name: fields[2], Type: strings.Join(fields[3:], " "), Index: s.nGhost}
			s.Ghosts[curOwner] = append(s.Ghosts[curOwner], g)
			return nil
		case "monitor":
			// monitor MUTEX protects a, b invariant EXPR
			if curOwner == "" {
				return fmt.Errorf("%s:%d: monitor outside struct block", path, ln)
			}
			pi := strings.Index(rest, " protects ")
			ii := strings.Index(rest, " invariant ")
			if ii < 0 {
				if j := strings.Index(rest, " mapinv "); j >= 0 {
					rest = rest[:j] + " invariant " + rest[j+8:]
					ii = j
				}
			}
			if pi < 0 {
				return fmt.Errorf("%s:%d: bad monitor", path, ln)
			}
			m := &Monitor{Owner: curOwner, Mutex: strings.TrimSpace(rest[:pi])}
			prot := rest[pi+10:]
			if ii >= 0 {
				prot = rest[pi+10 : ii]
				c, err := s.mkClause(strings.TrimSpace(rest[ii+11:]), path, ln)
				if err != nil {
					return err
				}
				m.Inv = c
			}
			m.Protects = splitNames(prot)
			s.Monitors = append(s.Monitors, m)
			return nil
		case "chaninv":
			if curOwner == "" {
				return fmt.Errorf("%s:%d: chaninv outside struct block", path, ln)
			}
			i := strings.Index(rest, ":")
			if i < 0 {
				return fmt.Errorf("%s:%d: bad chaninv", path, ln)
			}
			c, err := s.mkClause(strings.TrimSpace(rest[i+1:]), path, ln)
			if err != nil {
				return err
			}
			s.ChanInvs[curOwner+"."+strings.TrimSpace(rest[:i])] = c
			return nil
		case "globalinv":
			c, err := s.mkClause(rest, path, ln)
			if err != nil {
				return err
			}
			s.GlobalInvs = append(s.GlobalInvs, c)
			s.Assumes = append(s.Assumes, "globalinv "+rest)
			return nil
		case "mapinv":
			i := strings.Index(rest, ":")
			if i < 0 {
				return fmt.Errorf("%s:%d: bad mapinv", path, ln)
			}
			c, err := s.mkClause(strings.TrimSpace(rest[i+1:]), path, ln)
			if err != nil {
				return err
			}
			s.MapInvs[strings.TrimSpace(rest[:i])] = c
			s.Assumes = append(s.Assumes, "mapinv "+rest)
			return nil
		case "census":
			// census[C03,C06] callers|writers TARGET : f1, f2
			r := rest
			var props []string
			if m := propTagRe.FindStringSubmatch(r); m != nil {
				for _, p := range strings.Split(m[1], ",") {
					props = append(props, strings.TrimSpace(p))
				}
				r = r[len(m[0]):]
			}
			fs := strings.SplitN(r, " ", 2)
			if len(fs) != 2 {
				return fmt.Errorf("%s:%d: bad census", path, ln)
			}
			i := strings.LastIndex(fs[1], " : ")
			if i < 0 {
				return fmt.Errorf("%s:%d: bad census (missing ' : ')", path, ln)
			}
			s.Census = append(s.Census, &CensusSpec{Kind: fs[0], Target: strings.TrimSpace(fs[1][:i]), Allowed: splitNames(fs[1][i+3:]), Props: props, File: path, Line: ln})
			return nil
		case "writers", "callers":
			i := strings.Index(rest, ":")
			if i < 0 {
				return fmt.Errorf("%s:%d: bad %s", path, ln, kw)
			}
			k := strings.TrimSpace(rest[:i])
			if kw == "writers" {
				if curOwner != "" && !strings.Contains(k, ".") {
					k = curOwner + "." + k
				}
				s.Writers[k] = splitNames(rest[i+1:])
			} else {
				s.Callers[k] = splitNames(rest[i+1:])
			}
			return nil
		}
		if cur == nil {
			return fmt.Errorf("%s:%d: clause %q outside a block", path, ln, kw)
		}
		base := kw
		if i := strings.Index(kw, "["); i > 0 {
			// requires[C01] form: move the tag into the clause text
			base = kw[:i]
			rest = kw[i:] + " " + rest
		}
		switch base {
		case "props":
			cur.Props = append(cur.Props, strings.Fields(rest)...)
		case "requires":
			c, err := mk()
			if err != nil {
				return err
			}
			cur.Req = append(cur.Req, c)
			if cur.Kind != "func" && cur.Kind != "lemma" {
				// not an assumption: requires of externs are checked at call sites
			}
		case "ensures":
			c, err := mk()
			if err != nil {
				return err
			}
			cur.Ens = append(cur.Ens, c)
			if cur.Kind == "extern" || cur.Kind == "callback" || cur.Trusted {
				s.Assumes = append(s.Assumes, fmt.Sprintf("%s %s: ensures %s", cur.Kind, cur.Name, c.Text))
			}
		case "checks":
			c, err := mk()
			if err != nil {
				return err
			}
			cur.Checks = append(cur.Checks, c)
		case "modifies":
			cur.ModSet = true
			if rest == "nothing" {
				break
			}
			if rest == "everything" {
				cur.ModAll = true
				break
			}
			if rest == "ghosts" {
				cur.ModGhosts = true
				break
			}
			parts, err := splitTopCommas(rest)
			if err != nil {
				return fmt.Errorf("%s:%d: %v", path, ln, err)
			}
			for _, p := range parts {
				c, err := s.mkClause(strings.TrimSpace(p), path, ln)
				if err != nil {
					return err
				}
				cur.Mod = append(cur.Mod, c)
			}
		case "pure":
			cur.Pure = true
			cur.ModSet = true
		case "trusted":
			cur.Trusted = true
			cur.Notes = append(cur.Notes, rest)
			s.Assumes = append(s.Assumes, fmt.Sprintf("%s %s: trusted contract (%s)", cur.Kind, cur.Name, rest))
		case "note":
			cur.Notes = append(cur.Notes, rest)
		case "derive":
			cur.Derive = rest
		case "returns-chan":
			cur.ReturnsChan = rest
		case "inline":
			if cur.Inline == nil {
				cur.Inline = map[string]bool{}
			}
			for _, n := range splitNames(rest) {
				cur.Inline[n] = true
			}
		case "reveals":
			cur.Reveals = append(cur.Reveals, splitNames(rest)...)
		case "oncall":
			// oncall LABEL : EXPR   (evaluated in the caller's scope right before the call)
			i := strings.Index(rest, " : ")
			if i < 0 {
				return fmt.Errorf("%s:%d: bad oncall", path, ln)
			}
			c, err := s.mkClause(strings.TrimSpace(rest[i+3:]), path, ln)
			if err != nil {
				return err
			}
			if cur.OnCall == nil {
				cur.OnCall = map[string][]*Clause{}
			}
			lbl := strings.TrimSpace(rest[:i])
			if m := propTagRe.FindStringSubmatch(lbl); m != nil {
				for _, p := range strings.Split(m[1], ",") {
					c.Props = append(c.Props, strings.TrimSpace(p))
				}
				lbl = strings.TrimSpace(lbl[len(m[0]):])
			}
			cur.OnCall[lbl] = append(cur.OnCall[lbl], c)
		case "onref", "ghostinit", "chaninv-local":
			i := strings.Index(rest, " : ")
			if i < 0 {
				return fmt.Errorf("%s:%d: bad %s", path, ln, base)
			}
			c, err := s.mkClause(strings.TrimSpace(rest[i+3:]), path, ln)
			if err != nil {
				return err
			}
			key := strings.TrimSpace(rest[:i])
			if m := propTagRe.FindStringSubmatch(key); m != nil {
				for _, p := range strings.Split(m[1], ",") {
					c.Props = append(c.Props, strings.TrimSpace(p))
				}
				key = strings.TrimSpace(key[len(m[0]):])
			}
			switch base {
			case "onref":
				if cur.OnRef == nil {
					cur.OnRef = map[string][]*Clause{}
				}
				cur.OnRef[key] = append(cur.OnRef[key], c)
			case "ghostinit":
				if cur.GhostInit == nil {
					cur.GhostInit = map[string][]*Clause{}
				}
				cur.GhostInit[key] = append(cur.GhostInit[key], c)
				s.Assumes = append(s.Assumes, fmt.Sprintf("ghostinit in %s: %s : %s", cur.Name, key, c.Text))
			case "chaninv-local":
				if cur.LocalChanInv == nil {
					cur.LocalChanInv = map[string]*Clause{}
				}
				cur.LocalChanInv[key] = c
			}
		case "entry-ghost":
			i := strings.Index(rest, " = ")
			if i < 0 {
				return fmt.Errorf("%s:%d: bad entry-ghost", path, ln)
			}
			l, err := s.mkClause(strings.TrimSpace(rest[:i]), path, ln)
			if err != nil {
				return err
			}
			v, err := s.mkClause(strings.TrimSpace(rest[i+3:]), path, ln)
			if err != nil {
				return err
			}
			cur.EntryGhost = append(cur.EntryGhost, [2]*Clause{l, v})
		case "panics":
			if rest == "never" {
				break
			}
			r := strings.TrimSpace(strings.TrimPrefix(rest, "only-if"))
			c, err := s.mkClause(r, path, ln)
			if err != nil {
				return err
			}
			cur.PanicIf = append(cur.PanicIf, c)
		case "loop":
			fs := strings.Fields(rest)
			if len(fs) < 3 {
				return fmt.Errorf("%s:%d: bad loop clause", path, ln)
			}
			n, err := strconv.Atoi(fs[0])
			if err != nil {
				return fmt.Errorf("%s:%d: bad loop ordinal", path, ln)
			}
			ls := cur.Loops[n]
			if ls == nil {
				ls = &LoopSpec{}
				cur.Loops[n] = ls
			}
			body := strings.TrimSpace(rest[strings.Index(rest, fs[1])+len(fs[1]):])
			switch fs[1] {
			case "invariant":
				c, err := s.mkClause(body, path, ln)
				if err != nil {
					return err
				}
				ls.Invs = append(ls.Invs, c)
			case "modifies":
				parts, err := splitTopCommas(body)
				if err != nil {
					return err
				}
				for _, p := range parts {
					c, err := s.mkClause(strings.TrimSpace(p), path, ln)
					if err != nil {
						return err
					}
					ls.Modifies = append(ls.Modifies, c)
				}
			case "step":
				c, err := s.mkClause(body, path, ln)
				if err != nil {
					return err
				}
				ls.Steps = append(ls.Steps, c)
			case "decreases":
				// documentation only (termination is not proved)
			default:
				return fmt.Errorf("%s:%d: unknown loop clause %q", path, ln, fs[1])
			}
		default:
			return fmt.Errorf("%s:%d: unknown clause keyword %q", path, ln, kw)
		}
		return nil
	}
	_ = headerRe
	for sc.Scan() {
		ln++
		line := sc.Text()
		if prefix != "" {
			t := strings.TrimSpace(line)
			if !strings.HasPrefix(t, prefix) {
				continue
			}
			line = strings.TrimPrefix(t, prefix)
		}
		if i := strings.Index(line, " ## "); i >= 0 { // trailing remark
			line = line[:i]
		}
		t := strings.TrimSpace(line)
		if t == "" || strings.HasPrefix(t, "#") {
			continue
		}
		// continuation lines start with "..."
		if strings.HasPrefix(t, "...") {
			pending += " " + strings.TrimSpace(t[3:])
			continue
		}
		if pending != "" {
			if err := handle(pending, pendingLine); err != nil {
				return err
			}
		}
		pending, pendingLine = t, ln
	}
	if pending != "" {
		if err := handle(pending, pendingLine); err != nil {
			return err
		}
	}
	return sc.Err()
}

func splitTopCommas(s string) ([]string, error) {
	var parts []string
	depth := 0
	last := 0
	for i := 0; i < len(s); i++ {
		switch s[i] {
		case '(', '[', '{':
			depth++
		case ')', ']', '}':
			depth--
		case ',':
			if depth == 0 {
				parts = append(parts, s[last:i])
				last = i + 1
			}
		}
	}
	if depth != 0 {
		return nil, fmt.Errorf("unbalanced %q", s)
	}
	parts = append(parts, s[last:])
	return parts, nil
}
