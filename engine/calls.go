package main

import (
	"fmt"
	"go/ast"
	"go/constant"
	"strconv"
	"go/token"
	"go/types"
	"sort"
	"strings"

	"golang.org/x/tools/go/ssa"
)

// ---- callee resolution ------------------------------------------------------

func typeRelName(p *Program, t types.Type) string {
	switch t := t.(type) {
	case *types.Named:
		o := t.Obj()
		if o.Pkg() == nil || o.Pkg() == p.pkg.Types {
			return o.Name()
		}
		return o.Pkg().Name() + "." + o.Name()
	case *types.Pointer:
		return "*" + typeRelName(p, t.Elem())
	case *types.Slice:
		return "[]" + typeRelName(p, t.Elem())
	}
	return t.String()
}

// roleSite describes where a called function value came from.
func (x *Exec) roleSite(v ssa.Value) string {
	switch v := v.(type) {
	case *ssa.Parameter:
		// a function value handed on to an inlined, uncontracted helper keeps the role it had in the caller
		if x.curState != nil {
			for i := len(x.curState.frames) - 1; i >= 1; i-- {
				if fr := x.curState.frames[i]; fr.fn == v.Parent() && fr.paramSite != nil {
					if s := fr.paramSite[v]; s != "" {
						return s
					}
				}
			}
		}
		return "param " + v.Name() + " of " + x.prog.relName(v.Parent())
	case *ssa.FreeVar:
		return "freevar " + v.Name() + " of " + x.prog.relName(v.Parent())
	case *ssa.UnOp:
		if fa, ok := v.X.(*ssa.FieldAddr); ok && v.Op == token.MUL {
			st := fa.X.Type().Underlying().(*types.Pointer).Elem()
			sn := typeRelName(x.prog, st)
			return "field " + sn + "." + st.Underlying().(*types.Struct).Field(fa.Field).Name()
		}
		if fv, ok := v.X.(*ssa.FreeVar); ok && v.Op == token.MUL {
			return "freevar " + fv.Name() + " of " + x.prog.relName(fv.Parent())
		}
		if a, ok := v.X.(*ssa.Alloc); ok && v.Op == token.MUL && a.Comment != "" {
			return "local " + a.Comment + " of " + x.prog.relName(a.Parent())
		}
	case *ssa.Field:
		st := v.X.Type().Underlying().(*types.Struct)
		return "field " + typeRelName(x.prog, v.X.Type()) + "." + st.Field(v.Field).Name()
	case *ssa.Phi:
		if v.Comment != "" {
			return "local " + v.Comment + " of " + x.prog.relName(v.Parent())
		}
	case *ssa.Lookup:
		return "element of " + strings.TrimPrefix(describe(v.X), "*")
	case *ssa.Extract:
		if l, ok := v.Tuple.(*ssa.Lookup); ok {
			return "element of " + strings.TrimPrefix(describe(l.X), "*")
		}
		if c, ok := v.Tuple.(*ssa.Call); ok {
			if f := c.Call.StaticCallee(); f != nil {
				return fmt.Sprintf("result %d of %s", v.Index, x.prog.relName(f))
			}
		}
	case *ssa.Call:
		if f := v.Call.StaticCallee(); f != nil {
			return "result 0 of " + x.prog.relName(f)
		}
	}
	return ""
}

func (x *Exec) roleFor(site string) *FuncSpec {
	if site == "" {
		return nil
	}
	for _, r := range x.prog.spec.Roles {
		for _, s := range r.Sites {
			if s == site {
				return r
			}
		}
	}
	return nil
}

func (x *Exec) invokeKey(c *ssa.CallCommon) string {
	return typeRelName(x.prog, c.Value.Type()) + "." + c.Method.Name()
}

// calleeSpec returns the contract that a call will be checked against (nil if none).
// Used by the loop analysis; call() does the full dispatch.
func (x *Exec) calleeSpec(c *ssa.CallCommon, fr *Frame) *FuncSpec {
	if c.IsInvoke() {
		return x.prog.spec.Methods[x.invokeKey(c)]
	}
	switch f := c.Value.(type) {
	case *ssa.Builtin:
		return nil
	case *ssa.Function:
		if f.Pkg == x.prog.spkg || (f.Pkg == nil && f.Parent() != nil) {
			if v := x.variantKey(c); v != "" {
				if vs := x.prog.spec.Funcs[x.prog.relName(f)+"["+v+"]"]; vs != nil {
					return vs
				}
			}
			if fs := x.prog.spec.Funcs[x.prog.relName(f)]; fs != nil {
				return fs
			}
			return nil
		}
		if v := x.variantKey(c); v != "" {
			if vs := x.prog.spec.Externs[f.String()+"["+v+"]"]; vs != nil {
				return vs
			}
		}
		return x.prog.spec.Externs[f.String()]
	case *ssa.MakeClosure:
		return x.prog.spec.Funcs[x.prog.relName(f.Fn.(*ssa.Function))]
	}
	return x.roleFor(x.roleSite(c.Value))
}

func (x *Exec) isBenignBuiltin(c *ssa.CallCommon) bool {
	b, ok := c.Value.(*ssa.Builtin)
	if !ok {
		return false
	}
	switch b.Name() {
	case "len", "cap", "append", "print", "println", "min", "max", "recover":
		return true
	}
	return false
}

// ---- applying a contract -------------------------------------------------------

type callCtx struct {
	label string // callee name for obligation details
	pos   token.Pos
	isGo  bool
	self  *Val // the function value being called (callback roles): bound to self_
	fn    *ssa.Function // static in-package callee (modular replay stubs it)
}

func (x *Exec) applySpec(st *State, fs *FuncSpec, names []string, args []Val, sig *types.Signature, cc callCtx) Val {
	if len(names) != len(args) {
		panic(specErr{fmt.Sprintf("contract %s %s: %d parameter names for %d arguments", fs.Kind, fs.Name, len(names), len(args))})
	}
	x.usedSpecs[fs.Kind+" "+fs.Name] = true
	vars := map[string]Val{}
	for i, n := range names {
		vars[n] = args[i]
	}
	if cc.self != nil {
		vars["self_"] = *cc.self
	}
	pre := st.snap()
	env := &Env{x: x, st: st, old: pre, vars: vars}
	if len(fs.Req) > 0 && !strings.HasPrefix(cc.label, "role:") {
		// reachability of the call site (vacuity information)
		x.covers = append(x.covers, &Obligation{Name: fmt.Sprintf("%s#cover[call:%s]#%d", x.fname, cc.label, len(x.covers)), Func: x.fname, Kind: "cover", Props: x.spec.Props,
			Asms: append([]Term(nil), st.asms...), Goal: "false", decls: x.d, Desc: "call site reachable"})
	}
	for k, c := range fs.Req {
		env.what = fmt.Sprintf("%s requires (%s:%d)", fs.Name, shortFile(c.File), c.Line)
		d := cc.label + ":" + fmt.Sprint(k)
		if c.Label != "" {
			d = cc.label + ":" + c.Label
		}
		props := x.spec.Props
		if len(c.Props) > 0 {
			props = c.Props
		}
		parts := x.splitConj(c.Expr, 0)
		for j, pe := range parts {
			g := env.evalBool(pe)
			dd, desc := d, "precondition of "+cc.label+": "+c.Text
			if len(parts) > 1 {
				dd = fmt.Sprintf("%s.%d", d, j)
				desc += "  [conjunct: " + exprString(pe) + "]"
			}
			x.oblige(st, "callpre", dd, g, props, desc, cc.pos)
			st.assume(g)
		}
	}
	// caller-side obligations attached to this call label
	if ocs := x.spec.OnCall[cc.label]; len(ocs) > 0 {
		if x.oncallSeen == nil {
			x.oncallSeen = map[string]bool{}
		}
		x.oncallSeen[cc.label] = true
		cvars := x.scopeVars(st, st.frames[0])
		for n, v := range vars {
			cvars["a_"+n] = v // the call's arguments, by the callee's parameter names
		}
		cenv := &Env{x: x, st: st, old: x.entry, vars: cvars}
		for k, c := range ocs {
			cenv.what = fmt.Sprintf("%s oncall %s (%s:%d)", x.fname, cc.label, shortFile(c.File), c.Line)
			props := x.spec.Props
			if len(c.Props) > 0 {
				props = c.Props
			}
			d := cc.label + ":" + fmt.Sprint(k)
			if c.Label != "" {
				d = cc.label + ":" + c.Label
			}
			x.oblige(st, "oncall", d, cenv.evalBool(c.Expr), props, "before "+cc.label+": "+c.Text, cc.pos)
		}
	}
	// ghost bindings the callee establishes at its entry
	for _, eg := range fs.EntryGhost {
		env.what = fs.Name + " entry-ghost"
		p := env.evalPlace(eg[0].Expr)
		v := env.coerce(env.eval(eg[1].Expr), p.T)
		for i, l := range leavesOf(p.T) {
			a := extend(p.addr, l.Path)
			x.oblige(st, "frame", cc.label+":entry-ghost", x.writable(a, l.Sort), x.spec.Props, "ghost binding of "+cc.label+" is allowed by the modifies clause", cc.pos)
			st.storeLeaf(l.Sort, a, v.L[i])
		}
	}
	pre = st.snap()
	env.old = pre
	if len(fs.PanicIf) > 0 {
		var alts []Term
		for _, c := range fs.PanicIf {
			env.what = fs.Name + " panics only-if"
			alts = append(alts, env.evalBool(c.Expr))
		}
		mayPanic := tOr(alts...)
		goal := tNot(mayPanic)
		if len(x.spec.PanicIf) > 0 {
			eenv := &Env{x: x, st: st, cur: x.entry, old: x.entry, vars: x.entryVars}
			var ok []Term
			for _, c := range x.spec.PanicIf {
				ok = append(ok, eenv.evalBool(c.Expr))
			}
			goal = tOr(goal, tOr(ok...))
		}
		x.oblige(st, "callnopanic", cc.label, goal, x.spec.Props, "callee "+cc.label+" does not panic here", cc.pos)
		st.assume(tNot(mayPanic))
	}
	if cc.isGo {
		return Val{}
	}
	st.prepareAlloc()
	if fs.ModGhosts {
		if !x.modAll && !x.spec.ModGhosts {
			x.oblige(st, "frame", cc.label+":ghosts", "false", x.spec.Props, "callee "+cc.label+" may modify any ghost record", cc.pos)
		}
		for k := range st.heaps {
			if strings.HasPrefix(k, "g:") {
				st.havocHeap(k, func(Term) Term { return "false" })
			}
		}
		for _, k := range []string{"g:Bool", "g:Int", "g:String", "g:Ref"} {
			if _, ok := st.heaps[k]; !ok {
				st.havocHeap(k, func(Term) Term { return "false" })
			}
		}
	}
	// frame: everything the callee may modify must be writable by the caller
	if fs.ModAll {
		if !x.modAll {
			x.oblige(st, "frame", cc.label, "false", x.spec.Props, "callee "+cc.label+" modifies everything", cc.pos)
		}
		st.havocAll(func(Term) Term { return "false" })
	} else {
		type loc struct {
			sort string
			addr Term
		}
		var locs []loc
		for _, c := range fs.Mod {
			env.what = fmt.Sprintf("%s modifies (%s:%d)", fs.Name, shortFile(c.File), c.Line)
			for _, m := range x.locLeaves(env, c.Expr) {
				i := strings.Index(m, "|")
				locs = append(locs, loc{m[:i], m[i+1:]})
			}
		}
		if len(locs) > 0 {
			var gs []Term
			seen := map[string]bool{}
			for _, l := range locs {
				g := x.writable(l.addr, l.sort)
				if !seen[g] {
					seen[g] = true
					gs = append(gs, g)
				}
			}
			x.oblige(st, "frame", cc.label, tAnd(gs...), x.spec.Props, "locations modified by "+cc.label+" are allowed by the modifies clause", cc.pos)
		}
		for _, l := range locs {
			st.storeLeaf(l.sort, l.addr, x.d.FreshConst("hv", l.sort))
		}
	}
	st.bumpAlloc()
	var res Val
	res.T = sig.Results()
	for i := 0; i < sig.Results().Len(); i++ {
		r := st.freshVal("r_"+sanitize(cc.label), sig.Results().At(i).Type())
		res.L = append(res.L, r.L...)
	}
	if sig.Results().Len() == 1 && len(res.L) == 1 && leavesOf(sig.Results().At(0).Type())[0].Sort == "Bool" {
		key := "rtrue:" + cc.label
		cur, ok := st.ghostInt[key]
		if !ok {
			cur = "0"
		}
		st.ghostInt[key] = tIte(res.L[0], "(+ "+cur+" 1)", cur)
	}
	if n := sig.Results().Len(); n > 0 && isErrorType(sig.Results().At(n-1).Type()) {
		lo, _ := tupleRange(sig.Results(), n-1)
		key := "rerr:" + cc.label
		cur, ok := st.ghostInt[key]
		if !ok {
			cur = "0"
		}
		st.ghostInt[key] = tIte(tNot(tEq(res.L[lo], "0")), "(+ "+cur+" 1)", cur)
	}
	{
		key := "rcall:" + cc.label
		cur, ok := st.ghostInt[key]
		if !ok {
			cur = "0"
		}
		st.ghostInt[key] = "(+ " + cur + " 1)"
	}
	bindResults(vars, sig, fs.Results, res)
	env2 := &Env{x: x, st: st, old: pre, vars: vars}
	defer func() {
		// resultof("label") / atreturn("label", e): what the latest call returned and the state it left
		if st.lastCall == nil {
			st.lastCall = map[string]*callRec{}
		}
		st.lastCall[cc.label] = &callRec{res: res, args: args, snap: st.snap()}
	}()
	for _, c := range fs.Ens {
		env2.what = fmt.Sprintf("%s ensures (%s:%d)", fs.Name, shortFile(c.File), c.Line)
		if c.Bound != "" {
			// a universally quantified postcondition is instantiated at the caller's own skolem constants
			// (the bound variables of the quantified clauses it has to prove itself): see skolemFor
			for _, sk := range x.skolemTerms() {
				vars[c.Bound] = intVal(sk)
				st.assume(env2.evalBool(c.Expr))
			}
			delete(vars, c.Bound)
			continue
		}
		st.assume(env2.evalBool(c.Expr))
	}
	if fs.Kind == "method" && len(args) > 0 {
		st.events = &evNode{ev: &extEvent{kind: "method", key: fs.Name, recv: args[0], res: res, sig: sig, post: st.snap()}, prev: st.events}
	} else if strings.HasPrefix(cc.label, "role:") && cc.self != nil {
		st.events = &evNode{ev: &extEvent{kind: "role", key: fs.Name, recv: *cc.self, res: res, sig: sig, post: st.snap()}, prev: st.events}
	} else if cc.fn != nil {
		vcopy := make(map[string]Val, len(names))
		for i, n := range names {
			vcopy[n] = args[i]
		}
		st.events = &evNode{ev: &extEvent{kind: "func", key: cc.label, res: res, sig: sig, post: st.snap(), fs: fs, vars: vcopy, fn: cc.fn, pos: cc.pos}, prev: st.events}
	}
	return res
}

// ---- calls ------------------------------------------------------------------------

func (x *Exec) call(st *State, b *ssa.BasicBlock, idx int, in *ssa.Call) bool {
	c := in.Common()
	var args []Val
	for _, a := range c.Args {
		args = append(args, x.value(st, a))
	}
	cont := func(st *State, res Val) {
		if in.Type() != nil {
			if tp, ok := in.Type().(*types.Tuple); ok {
				if tp.Len() > 0 {
					st.top().regs[in] = Val{T: tp, L: res.L}
				}
			} else {
				st.top().regs[in] = Val{T: in.Type(), L: res.L}
			}
		}
	}
	done, res := x.callCommon(st, c, args, in.Pos(), func(st *State, res Val) {
		cont(st, res)
		x.runFrom(st, b, idx+1)
	})
	if done {
		cont(st, res)
		return true
	}
	return false
}

// callCommon performs a call. If it returns done=true the result is available
// immediately; otherwise the call was inlined and k will be invoked later.
// variantKey: the static type behind the first interface-typed argument that
// is built at the call site (MakeInterface / ChangeInterface), used to select
// a type-specific contract of a generic library function (json.Marshal, ...).
func (x *Exec) variantKey(c *ssa.CallCommon) string {
	for _, a := range c.Args {
		if v := x.variantOf(a); v != "" {
			return v
		}
	}
	return ""
}

// variantOf: the static type behind an interface-typed argument: built at the call site, or handed on
// through a parameter of an inlined helper (then it is what the helper's caller built).
func (x *Exec) variantOf(a ssa.Value) string {
	switch a := a.(type) {
	case *ssa.MakeInterface:
		return typeRelName(x.prog, a.X.Type())
	case *ssa.ChangeInterface:
		return typeRelName(x.prog, a.X.Type())
	case *ssa.Parameter:
		if x.curState != nil {
			for i := len(x.curState.frames) - 1; i >= 1; i-- {
				if fr := x.curState.frames[i]; fr.fn == a.Parent() && fr.paramVariant != nil {
					return fr.paramVariant[a]
				}
			}
		}
	}
	return ""
}

func (x *Exec) callCommon(st *State, c *ssa.CallCommon, args []Val, pos token.Pos, k func(*State, Val)) (bool, Val) {
	sig := c.Signature()
	x.curCall = c
	defer func() { x.curCall = nil }()
	if c.IsInvoke() {
		recv := x.value(st, c.Value)
		x.oblige(st, "nilinvoke", describe(c.Value), tNot(tEq(recv.L[0], "0")), x.spec.Props, "method call on nil interface value", pos)
		st.assume(tNot(tEq(recv.L[0], "0")))
		key := x.invokeKey(c)
		// devirtualise when the dynamic type is known on this path
		if id, err := strconv.Atoi(recv.L[0]); err == nil {
			if dt, ok := x.prog.typeByID[id]; ok {
				if m := x.prog.prog.LookupMethod(dt, c.Method.Pkg(), c.Method.Name()); m != nil {
					var rv Val
					if isPointerLike(dt) {
						rv = Val{T: dt, L: []Term{recv.L[1]}}
					} else {
						rv = st.loadVal(recv.L[1], dt)
					}
					return x.callFunction(st, m, nil, append([]Val{rv}, args...), pos, k)
				}
			}
		}
		fs := x.prog.spec.Methods[key]
		if fs == nil {
			return true, x.unknownCall(st, key, sig, pos)
		}
		all := append([]Val{recv}, args...)
		return true, x.applySpec(st, fs, fs.Params, all, sig, callCtx{label: key, pos: pos})
	}
	switch f := c.Value.(type) {
	case *ssa.Builtin:
		return true, x.builtin(st, f, c, args, pos)
	case *ssa.Function:
		return x.callFunction(st, f, nil, args, pos, k)
	}
	fv := x.value(st, c.Value)
	x.oblige(st, "nilcall", describe(c.Value), tNot(tIsNil(fv.L[0])), x.spec.Props, "call of nil function value", pos)
	st.assume(tNot(tIsNil(fv.L[0])))
	if ci, ok := st.closures[fv.L[0]]; ok {
		return x.callFunction(st, ci.fn, ci.bindings, args, pos, k)
	}
	x.curState = st
	site := x.roleSite(c.Value)
	if r := x.roleFor(site); r != nil {
		return true, x.applySpec(st, r, r.Params, args, sig, callCtx{label: "role:" + r.Name, pos: pos, self: &fv})
	}
	return true, x.unknownCall(st, "function value ("+site+")", sig, pos)
}

func (x *Exec) callFunction(st *State, f *ssa.Function, bindings []Val, args []Val, pos token.Pos, k func(*State, Val)) (bool, Val) {
	name := x.prog.relName(f)
	inPkg := f.Pkg == x.prog.spkg || (f.Pkg == nil && f.Parent() != nil && f.Parent().Pkg == x.prog.spkg)
	var fs *FuncSpec
	if inPkg {
		fs = x.prog.spec.Funcs[name]
		if x.spec != nil && x.spec.Inline[name] && f.Blocks != nil {
			// `inline NAME`: the callee's body is verified in place, in this caller's context (the callee's own
			// contract, if any, is verified separately); used where the caller knows something the callee's
			// contract cannot say (the dynamic type of an interface argument)
			fs = nil
			x.usedSpecs["inline "+name] = true
		}
		if x.curCall != nil && fs != nil {
			if v := x.variantKey(x.curCall); v != "" {
				if vs := x.prog.spec.Funcs[name+"["+v+"]"]; vs != nil {
					fs = vs
					name = name + "[" + v + "]"
				}
			}
		}
	} else {
		fs = x.prog.spec.Externs[f.String()]
		if x.curCall != nil {
			if v := x.variantKey(x.curCall); v != "" {
				if vs := x.prog.spec.Externs[f.String()+"["+v+"]"]; vs != nil {
					fs = vs
					name = name + "[" + v + "]"
				}
			}
		}
	}
	if !inPkg && (strings.HasPrefix(f.String(), "(*sync.Mutex).") || strings.HasPrefix(f.String(), "(*sync.RWMutex).")) && len(args) == 1 && x.curCall != nil && len(x.curCall.Args) == 1 {
		x.lockOp(st, f.String(), x.curCall.Args[0], args[0].L[0], pos)
	}
	if !inPkg && f.String() == "(*sync.Once).Do" && len(args) == 2 {
		return x.onceDo(st, args[0], args[1], pos, k)
	}
	if !inPkg && f.String() == "fmt.Sprintf" && x.curCall != nil {
		if t, ok := x.sprintf(st, x.curCall, args, pos); ok {
			x.usedSpecs["builtin fmt.Sprintf(%v)"] = true
			return true, Val{T: f.Signature.Results(), L: []Term{t}}
		}
	}
	if name == "verifAssert" || name == "verifAssume" {
		g := args[0].L[0]
		if name == "verifAssert" {
			x.oblige(st, "assert", "", g, x.spec.Props, "lemma assertion", pos)
		}
		st.assume(g)
		return true, Val{T: f.Signature.Results()}
	}
	if fs != nil {
		var names []string
		if inPkg && len(fs.Params) == 0 {
			names = x.paramNames(f)
		} else {
			names = fs.Params
		}
		if inPkg && len(fs.Params) == 0 && len(bindings) > 0 {
			fn2, fa := x.closureVars(st, f, bindings)
			names = append(append([]string(nil), names...), fn2...)
			args = append(append([]Val(nil), args...), fa...)
		}
		cc := callCtx{label: name, pos: pos}
		if inPkg && f.Parent() == nil && f.Synthetic == "" {
			cc.fn = f
		}
		return true, x.applySpec(st, fs, names, args, f.Signature, cc)
	}
	// no contract: inline closures and synthetic wrappers; otherwise havoc
	if f.Blocks != nil && (f.Parent() != nil || f.Synthetic != "") && len(st.frames) < 8 {
		x.inline(st, f, bindings, args, k)
		return false, Val{}
	}
	// an in-package helper without a contract (typically the product of a refactoring) is
	// inlined rather than treated as unknown code, unless it is (mutually) recursive
	if inPkg && f.Blocks != nil && len(st.frames) < 4 {
		onStack := false
		for _, fr := range st.frames {
			if fr.fn == f {
				onStack = true
			}
		}
		if !onStack {
			x.notes = append(x.notes, "uncontracted in-package function inlined: "+name)
			x.inline(st, f, bindings, args, k)
			return false, Val{}
		}
	}
	return true, x.unknownCall(st, name, f.Signature, pos)
}

// onceDo gives sync.Once.Do its meaning: on a Once that has already fired nothing
// happens; otherwise it is marked fired and the function is called (against its
// contract, or inlined when it is a wrapper). Both cases are explored.
func (x *Exec) onceDo(st *State, o Val, fv Val, pos token.Pos, k func(*State, Val)) (bool, Val) {
	x.usedSpecs["builtin (*sync.Once).Do"] = true
	unit := Val{T: types.NewTuple()}
	x.oblige(st, "nilderef", "once", tNot(tIsNil(o.L[0])), x.spec.Props, "Do on a nil *sync.Once", pos)
	st.assume(tNot(tIsNil(o.L[0])))
	idx := -1
	for _, g := range x.prog.spec.Ghosts["sync.Once"] {
		if g.Name == "fired" {
			idx = g.Index
		}
	}
	if idx < 0 {
		panic(specErr{"sync.Once needs the ghost field `fired`"})
	}
	addr := extendGhost(o.L[0], idx)
	fired := st.loadIn(nil, "Bool", addr)
	if k != nil {
		s2 := st.fork()
		s2.assume(fired)
		s2.trace = append(s2.trace, "once:fired")
		k(s2, unit)
	} else {
		// no continuation available (deferred call): only the first-call case is followed
		x.notes = append(x.notes, "sync.Once.Do in a deferred call: the already-fired case is not explored")
	}
	st.assume(tNot(fired))
	st.trace = append(st.trace, "once:first")
	x.oblige(st, "frame", "(*sync.Once).Do", x.writable(addr, "Bool"), x.spec.Props, "the Once marked fired is allowed by the modifies clause", pos)
	st.storeLeaf("Bool", addr, "true")
	x.oblige(st, "nilcall", "once function", tNot(tIsNil(fv.L[0])), x.spec.Props, "call of nil function value", pos)
	st.assume(tNot(tIsNil(fv.L[0])))
	if ci, ok := st.closures[fv.L[0]]; ok {
		return x.callFunction(st, ci.fn, ci.bindings, nil, pos, k)
	}
	return true, x.unknownCall(st, "function passed to sync.Once.Do", types.NewSignatureType(nil, nil, nil, nil, nil, false), pos)
}

func (x *Exec) inline(st *State, f *ssa.Function, bindings []Val, args []Val, k func(*State, Val)) {
	fr := &Frame{fn: f, regs: map[ssa.Value]Val{}, free: bindings, retK: k, depth: len(st.frames)}
	for i, p := range f.Params {
		fr.regs[p] = Val{T: p.Type(), L: args[i].L}
	}
	if c := x.curCall; c != nil && !c.IsInvoke() && c.StaticCallee() == f && len(c.Args) == len(f.Params) {
		x.curState = st
		for i, p := range f.Params {
			if isInterface(p.Type()) {
				// evaluated with the caller's frames only (fr is not pushed yet)
				if v := x.variantOf(c.Args[i]); v != "" {
					if fr.paramVariant == nil {
						fr.paramVariant = map[*ssa.Parameter]string{}
					}
					fr.paramVariant[p] = v
				}
			}
		}
		for i, p := range f.Params {
			if _, isFn := p.Type().Underlying().(*types.Signature); isFn {
				if s := x.roleSite(c.Args[i]); s != "" {
					if fr.paramSite == nil {
						fr.paramSite = map[*ssa.Parameter]string{}
					}
					fr.paramSite[p] = s
				}
			}
		}
	}
	st.frames = append(st.frames, fr)
	x.analyzeLoops(f)
	x.enterBlock(st, f.Blocks[0], nil)
}

func (x *Exec) unknownCall(st *State, name string, sig *types.Signature, pos token.Pos) Val {
	x.notes = append(x.notes, "uncontracted call havocs the heap: "+name)
	if !x.modAll {
		x.oblige(st, "frame", "uncontracted:"+name, "false", x.spec.Props, "call to "+name+" has no contract (may modify anything)", pos)
	}
	st.prepareAlloc()
	st.havocAll(func(Term) Term { return "false" })
	st.bumpAlloc()
	var res Val
	res.T = sig.Results()
	for i := 0; i < sig.Results().Len(); i++ {
		r := st.freshVal("r_unk", sig.Results().At(i).Type())
		res.L = append(res.L, r.L...)
	}
	return res
}

func (x *Exec) builtin(st *State, f *ssa.Builtin, c *ssa.CallCommon, args []Val, pos token.Pos) Val {
	rt := c.Signature().Results()
	one := func(t Term) Val { return Val{T: rt, L: []Term{t}} }
	switch f.Name() {
	case "len":
		switch args[0].T.Underlying().(type) {
		case *types.Slice:
			return one(args[0].L[2])
		case *types.Basic:
			return one("(str.len " + args[0].L[0] + ")")
		}
		n := x.d.FreshConst("len", "Int")
		st.assume("(>= " + n + " 0)")
		return one(n)
	case "cap":
		n := x.d.FreshConst("cap", "Int")
		st.assume("(>= " + n + " 0)")
		if _, ok := args[0].T.Underlying().(*types.Slice); ok {
			st.assume("(>= " + n + " " + args[0].L[2] + ")")
		}
		return one(n)
	case "append":
		s1, s2 := args[0], args[1]
		st1 := s1.T.Underlying().(*types.Slice)
		// append is modelled as producing a fresh array. That is wrong when the first argument is a
		// re-sliced view (y[:k]) of an array the function does not own: the append then overwrites
		// elements the owner of y still sees. Such an append needs write permission on y's elements.
		if sl := resliceSource(c.Args[0], 4, map[ssa.Value]bool{}); sl != nil {
			goal := Term("false")
			if base, ok := st.top().regs[sl.X]; ok && len(base.L) == 3 {
				var gs []Term
				for _, l := range leavesOf(st1.Elem()) {
					gs = append(gs, x.writable(extend(extendIdx(base.L[0], base.L[1]), l.Path), l.Sort))
				}
				goal = tOr(tAnd(gs...), "(<= "+base.L[2]+" 0)")
			}
			x.oblige(st, "frame", "append into a re-sliced view of "+describe(sl.X), goal, x.spec.Props,
				"append to a shortened view of a slice the function does not own overwrites the owner's elements", pos)
		}
		obj := st.newObject()
		nl := "(+ " + s1.L[2] + " " + s2.L[2] + ")"
		// contents: element j of the result equals element j of the first slice
		// (j < len1) or element j-len1 of the appended one; instantiated lazily
		// at every later read of an element of the result (state.go, copyAxiom)
		x.appendInfo[obj] = &appendRec{s1: [3]Term{s1.L[0], s1.L[1], s1.L[2]}, s2: [3]Term{s2.L[0], s2.L[1], s2.L[2]}, snap: st.snap(), elem: st1.Elem()}
		if el := leavesOf(st1.Elem()); len(el) == 1 && el[0].Sort == "String" && (s2.L[2] == "1" || s2.L[2] == "(- 1 0)") {
			// element-set view: elems(append(s, x)) == elems(s) ∪ {x}
			xv := st.loadVal(extendIdx(s2.L[0], s2.L[1]), st1.Elem())
			st.assume(tEq(st.elemsOf([3]Term{obj, "0", nl}), tStore(st.elemsOf([3]Term{s1.L[0], s1.L[1], s1.L[2]}), xv.L[0], "true")))
		}
		if el := leavesOf(st1.Elem()); len(el) == 2 && el[0].Kind == LkTag && (s2.L[2] == "1" || s2.L[2] == "(- 1 0)") {
			// slices of interface values: the tags of the elements, and the element set of the boxed string-kinded ones
			xv := st.loadVal(extendIdx(s2.L[0], s2.L[1]), st1.Elem())
			old3, new3 := [3]Term{s1.L[0], s1.L[1], s1.L[2]}, [3]Term{obj, "0", nl}
			st.assume(tEq(st.tagsOf(new3), tStore(st.tagsOf(old3), xv.L[0], "true")))
			st.assume(tEq(st.elemsOf(new3), tIte(st.stringKindedTag(xv.L[0]), tStore(st.elemsOf(old3), unboxString(xv.L[1]), "true"), st.elemsOf(old3))))
		}
		x.notes = append(x.notes, "append allocates a fresh backing array (aliasing through spare capacity is not modelled)")
		return Val{T: rt, L: []Term{obj, "0", nl}}
	case "delete":
		x.monitorAccess(st, c.Args[0], true, nil, nil, "true", pos)
		x.mapDelete(st, args[0], args[1], describe(c.Args[0]), pos)
		return Val{T: rt}
	case "close":
		ch := args[0]
		closedAddr := extendGhost(ch.L[0], 0)
		x.oblige(st, "closenil", describe(c.Args[0]), tNot(tIsNil(ch.L[0])), x.spec.Props, "close of nil channel", pos)
		cl := st.loadIn(nil, "Bool", closedAddr)
		x.oblige(st, "closeclosed", describe(c.Args[0]), tNot(cl), x.spec.Props, "close of closed channel", pos)
		x.oblige(st, "frame", describe(c.Args[0]), x.writable(closedAddr, "Bool"), x.spec.Props, "close allowed by modifies clause", pos)
		st.storeLeaf("Bool", closedAddr, "true")
		return Val{T: rt}
	case "print", "println":
		return Val{T: rt}
	case "recover":
		return zeroVal(rt.At(0).Type())
	case "copy":
		n := x.d.FreshConst("copied", "Int")
		st.assume(tAnd("(>= "+n+" 0)", "(<= "+n+" "+args[0].L[2]+")", "(<= "+n+" "+args[1].L[2]+")"))
		x.notes = append(x.notes, "copy: destination contents not tracked")
		st.pendingAlloc = st.alloc
		st.havocAll(func(a Term) Term { return tNot(tEq(tOrid(a), tRid(args[0].L[0]))) })
		st.pendingAlloc = ""
		return one(n)
	}
	panic(unsupported("builtin " + f.Name()))
}

// ---- defers -----------------------------------------------------------------------

func (x *Exec) runDefers(st *State, k func(*State)) {
	fr := st.top()
	if len(fr.defers) == 0 {
		k(st)
		return
	}
	d := fr.defers[len(fr.defers)-1]
	fr.defers = fr.defers[:len(fr.defers)-1]
	next := func(st *State, _ Val) { x.runDefers(st, k) }
	var done bool
	c := d.call
	if c.IsInvoke() {
		key := x.invokeKey(c)
		fs := x.prog.spec.Methods[key]
		if fs == nil {
			x.unknownCall(st, key, c.Signature(), c.Pos())
		} else {
			x.applySpec(st, fs, fs.Params, append([]Val{d.fnv}, d.args...), c.Signature(), callCtx{label: key, pos: c.Pos()})
		}
		done = true
	} else {
		switch f := c.Value.(type) {
		case *ssa.Builtin:
			x.builtin(st, f, c, d.args, c.Pos())
			done = true
		case *ssa.Function:
			x.curCall = c
			done, _ = x.callFunction(st, f, nil, d.args, c.Pos(), next)
			x.curCall = nil
		default:
			if ci, ok := st.closures[d.fnv.L[0]]; ok {
				done, _ = x.callFunction(st, ci.fn, ci.bindings, d.args, c.Pos(), next)
			} else if r := x.roleFor(func() string { x.curState = st; return x.roleSite(c.Value) }()); r != nil {
				x.applySpec(st, r, r.Params, d.args, c.Signature(), callCtx{label: "role:" + r.Name, pos: c.Pos()})
				done = true
			} else {
				x.unknownCall(st, "deferred function value", c.Signature(), c.Pos())
				done = true
			}
		}
	}
	if done {
		x.runDefers(st, k)
	}
}

// ---- goroutines, channels ------------------------------------------------------------

func (x *Exec) goStmt(st *State, in *ssa.Go) {
	c := in.Common()
	var args []Val
	for _, a := range c.Args {
		args = append(args, x.value(st, a))
	}
	var fs *FuncSpec
	var names []string
	label := "go"
	switch f := c.Value.(type) {
	case *ssa.Function:
		label = x.prog.relName(f)
		fs = x.prog.spec.Funcs[label]
		names = x.paramNames(f)
	case *ssa.MakeClosure:
		fn := f.Fn.(*ssa.Function)
		label = x.prog.relName(fn)
		fs = x.prog.spec.Funcs[label]
		names = x.paramNames(fn)
		// a goroutine that captures a variable which is assigned again after the spawn (a loop variable
		// shared by all iterations before go1.22, typically) reads whatever the variable holds by then
		for _, b := range f.Bindings {
			if a, ok := b.(*ssa.Alloc); ok {
				if w := writtenAfter(in, a); w != nil {
					pos := x.prog.prog.Fset.Position(w.Pos())
					x.oblige(st, "gocapture", a.Comment, "false", x.spec.Props,
						fmt.Sprintf("the spawned goroutine captures variable %s, which is assigned again at line %d while the goroutine may be running", a.Comment, pos.Line), in.Pos())
				}
			}
		}
		if fs != nil && len(fs.Params) == 0 {
			var bs []Val
			for _, b := range f.Bindings {
				bs = append(bs, x.value(st, b))
			}
			fn2, fa := x.closureVars(st, fn, bs)
			names = append(names, fn2...)
			args = append(args, fa...)
		}
	}
	// ghost: goroutines spawned per function on this path
	{
		if a, ok := x.prog.goAlias[label]; ok {
			label = a
		}
		key := "go:" + label
		cur, ok := st.ghostInt[key]
		if !ok {
			cur = "0"
		}
		st.ghostInt[key] = "(+ " + cur + " 1)"
	}
	x.goCensus(st, label, in.Pos())
	if fs == nil {
		x.notes = append(x.notes, "go statement without contract on the spawned function: "+label)
		inPkg := false
		switch f := c.Value.(type) {
		case *ssa.Function:
			inPkg = f.Pkg == x.prog.spkg
		case *ssa.MakeClosure:
			inPkg = true
		}
		if inPkg {
			// the body of the new goroutine would be outside the proof: nothing it does is checked and
			// nothing the spawner's contract says about spawned work (ngo, nsent, ...) covers it. No such
			// spawn exists on the unchanged tree.
			x.oblige(st, "gospawn", label, "false", x.spec.Props,
				"the spawned function "+label+" has no contract: the goroutine's body is not verified", in.Pos())
		}
		return
	}
	if len(fs.Params) > 0 {
		names = fs.Params
	}
	x.applySpec(st, fs, names, args, c.Signature(), callCtx{label: label, pos: in.Pos(), isGo: true})
}

func (x *Exec) goCensus(st *State, label string, pos token.Pos) {}

// closureVars exposes the variables a closure captured, by name, with the value
// they hold at the call / go statement (contracts of closures mention them).
func (x *Exec) closureVars(st *State, fn *ssa.Function, bindings []Val) ([]string, []Val) {
	var names []string
	var vals []Val
	for i, fv := range fn.FreeVars {
		if i >= len(bindings) {
			break
		}
		if pt, ok := fv.Type().Underlying().(*types.Pointer); ok {
			names = append(names, fv.Name())
			vals = append(vals, st.loadVal(bindings[i].L[0], pt.Elem()))
		} else {
			names = append(names, fv.Name())
			vals = append(vals, bindings[i])
		}
	}
	return names, vals
}

// writtenAfter: is there a store to the captured cell a that can execute after the go statement
// without the cell having been allocated anew in between? Returns that store.
func writtenAfter(g *ssa.Go, a *ssa.Alloc) *ssa.Store {
	fn := g.Parent()
	start := g.Block()
	// statements after the go in its own block
	afterGo := false
	for _, in := range start.Instrs {
		if in == ssa.Instruction(g) {
			afterGo = true
			continue
		}
		if !afterGo {
			continue
		}
		if in == ssa.Instruction(a) {
			return nil
		}
		if st, ok := in.(*ssa.Store); ok && st.Addr == ssa.Value(a) {
			return st
		}
	}
	seen := map[*ssa.BasicBlock]bool{}
	work := append([]*ssa.BasicBlock(nil), start.Succs...)
	for len(work) > 0 {
		b := work[len(work)-1]
		work = work[:len(work)-1]
		if seen[b] {
			continue
		}
		seen[b] = true
		fresh := false
		for _, in := range b.Instrs {
			if b == start && in == ssa.Instruction(g) {
				break // came round to the spawn again: a new spawn, its own analysis
			}
			if in == ssa.Instruction(a) {
				fresh = true // the variable is a new cell from here on
				break
			}
			if st, ok := in.(*ssa.Store); ok && st.Addr == ssa.Value(a) {
				return st
			}
		}
		if !fresh {
			work = append(work, b.Succs...)
		}
	}
	_ = fn
	return nil
}

// resliceSource: does the slice value come (through phis) from a Slice instruction applied to
// something that is not a fresh local allocation? Returns that instruction.
func resliceSource(v ssa.Value, depth int, seen map[ssa.Value]bool) *ssa.Slice {
	if depth < 0 || seen[v] {
		return nil
	}
	seen[v] = true
	switch v := v.(type) {
	case *ssa.Phi:
		for _, e := range v.Edges {
			if r := resliceSource(e, depth-1, seen); r != nil {
				return r
			}
		}
	case *ssa.Slice:
		if _, isSlice := v.X.Type().Underlying().(*types.Slice); !isSlice {
			return nil // slicing an array or string
		}
		if ownedSlice(v.X, 4, map[ssa.Value]bool{}) {
			return nil
		}
		return v
	}
	return nil
}

// ownedSlice: the slice was allocated by this function (make, append, composite literal) on every path.
func ownedSlice(v ssa.Value, depth int, seen map[ssa.Value]bool) bool {
	if depth < 0 {
		return false
	}
	if seen[v] {
		return true
	}
	seen[v] = true
	switch v := v.(type) {
	case *ssa.MakeSlice:
		return true
	case *ssa.Call:
		if b, ok := v.Call.Value.(*ssa.Builtin); ok && b.Name() == "append" {
			return ownedSlice(v.Call.Args[0], depth-1, seen)
		}
	case *ssa.Slice:
		if _, isPtr := v.X.Type().Underlying().(*types.Pointer); isPtr {
			if _, isAlloc := v.X.(*ssa.Alloc); isAlloc {
				return true // slice of a fresh array (composite literal)
			}
		}
		return ownedSlice(v.X, depth-1, seen)
	case *ssa.Phi:
		for _, e := range v.Edges {
			if !ownedSlice(e, depth-1, seen) {
				return false
			}
		}
		return true
	}
	return false
}

// anyChanKey: "anychan.<Elem>" — every channel whose element type has that bare name
// (rename-proof alternative to naming a local channel variable in a contract).
func anyChanKey(t types.Type) string {
	ct, ok := t.Underlying().(*types.Chan)
	if !ok {
		return ""
	}
	e := ct.Elem()
	if pt, ok := e.(*types.Pointer); ok {
		e = pt.Elem()
	}
	switch n := e.(type) {
	case *types.Named:
		return "anychan." + n.Obj().Name()
	case *types.Basic:
		return "anychan." + n.Name()
	}
	return ""
}

func (x *Exec) chanKeyDepth(v ssa.Value, depth int) string {
	if depth <= 0 {
		return ""
	}
	if _, isPhi := v.(*ssa.Phi); isPhi {
		return "" // nested phis: give up
	}
	return x.chanKey(v)
}

// chanKey names a channel by the struct field it was read from ("channel.inMsgChan").
func (x *Exec) chanKey(v ssa.Value) string {
	switch v := v.(type) {
	case *ssa.UnOp:
		if fa, ok := v.X.(*ssa.FieldAddr); ok && v.Op == token.MUL {
			st := fa.X.Type().Underlying().(*types.Pointer).Elem()
			return typeRelName(x.prog, st) + "." + st.Underlying().(*types.Struct).Field(fa.Field).Name()
		}
	case *ssa.ChangeType:
		return x.chanKey(v.X)
	case *ssa.Phi:
		// the same kind of channel on every incoming edge
		key := ""
		for i, e := range v.Edges {
			if _, self := e.(*ssa.Phi); self && e == ssa.Value(v) {
				continue
			}
			k := x.chanKeyDepth(e, 3)
			if k == "" || (i > 0 && key != "" && k != key) {
				return ""
			}
			key = k
		}
		return key
	case *ssa.Extract:
		// value of a comma-ok map lookup
		if lk, ok := v.Tuple.(*ssa.Lookup); ok && v.Index == 0 {
			return x.chanKey(lk)
		}
	case *ssa.Lookup:
		// a channel stored in a map held in a struct field: "Type.field.elem"
		if u, ok := v.X.(*ssa.UnOp); ok && u.Op == token.MUL {
			if fa, ok := u.X.(*ssa.FieldAddr); ok {
				st := fa.X.Type().Underlying().(*types.Pointer).Elem()
				return typeRelName(x.prog, st) + "." + st.Underlying().(*types.Struct).Field(fa.Field).Name() + ".elem"
			}
		}
	case *ssa.Call:
		// accessor methods such as c.MsgChan(): declared with `returns-chan`
		if f := v.Call.StaticCallee(); f != nil {
			if fs := x.prog.spec.Funcs[x.prog.relName(f)]; fs != nil {
				return fs.ReturnsChan
			}
		}
		return ""
	}
	return ""
}

func (x *Exec) localNameOf(fn *ssa.Function, v ssa.Value) string {
	for _, dr := range x.debugRefs[fn] {
		if dr.X == v && !dr.IsAddr {
			if id, ok := dr.Expr.(*ast.Ident); ok {
				return id.Name
			}
		}
	}
	return ""
}

func (x *Exec) chanInvFor(st *State, chv ssa.Value, ch Val, v Val) Term {
	key := x.chanKey(chv)
	inv := x.prog.spec.ChanInvs[key]
	if inv == nil {
		fn := st.top().fn
		if n := x.localNameOf(fn, chv); n != "" {
			for f := fn; f != nil && inv == nil; f = f.Parent() {
				if fs := x.prog.spec.Funcs[x.prog.relName(f)]; fs != nil {
					inv = fs.LocalChanInv[n]
				}
			}
			key = "local " + n
		}
		if inv == nil {
			if ak := anyChanKey(chv.Type()); ak != "" {
				for f := fn; f != nil && inv == nil; f = f.Parent() {
					if fs := x.prog.spec.Funcs[x.prog.relName(f)]; fs != nil {
						inv = fs.LocalChanInv[ak]
					}
				}
				if inv == nil && len(st.frames) > 1 {
					inv = x.spec.LocalChanInv[ak] // inlined helper
				}
				key = ak
			}
		}
	}
	if inv == nil {
		return "true"
	}
	env := &Env{x: x, st: st, old: x.entry, vars: map[string]Val{"v": v, "ch": ch}, what: "chaninv " + key}
	return env.evalBool(inv.Expr)
}

func (x *Exec) recv(st *State, in *ssa.UnOp, ch Val) {
	et := in.X.Type().Underlying().(*types.Chan).Elem()
	v := st.freshVal("rcv", et)
	// a receive yields a sent value (ok) or, on a closed channel, the zero value
	okT := x.d.FreshConst("rcvok", "Bool")
	st.assume(tImp(okT, x.chanInvFor(st, in.X, ch, v)))
	x.d.DeclareFun("uf_neverclosed_0", []string{"Ref"}, "Bool")
	st.assume(tImp("(uf_neverclosed_0 "+ch.L[0]+")", okT))
	x.noteRecv(st, in.X, ch, v, okT)
	if !in.CommaOk {
		z := zeroVal(et)
		out := Val{T: in.Type()}
		for i := range v.L {
			out.L = append(out.L, tIte(okT, v.L[i], z.L[i]))
		}
		x.setReg(st, in, out)
		return
	}
	if in.CommaOk {
		z := zeroVal(et)
		out := Val{T: in.Type()}
		for i := range v.L {
			out.L = append(out.L, tIte(okT, v.L[i], z.L[i]))
		}
		out.L = append(out.L, okT)
		x.setReg(st, in, out)
		return
	}
	x.setReg(st, in, v)
}

func (x *Exec) noteSend(st *State, chv ssa.Value, ch Val, v Val, cond Term, pos token.Pos) {
	g := x.chanInvFor(st, chv, ch, v)
	if g != "true" {
		x.oblige(st, "chaninv", x.chanKey(chv), tImp(cond, g), x.spec.Props, "value sent satisfies the channel invariant", pos)
	}
	// ghost: count sends per channel key on this path
	ck := x.chanKey(chv)
	if ck == "" {
		if n := x.localNameOf(st.top().fn, chv); n != "" {
			ck = "local." + n
		}
	}
	key := "sent:" + ck
	cur, ok := st.ghostInt[key]
	if !ok {
		cur = "0"
	}
	st.ghostInt[key] = tIte(cond, "(+ "+cur+" 1)", cur)
	if ak := anyChanKey(chv.Type()); ak != "" && ak != ck {
		acur, ok := st.ghostInt["sent:"+ak]
		if !ok {
			acur = "0"
		}
		st.ghostInt["sent:"+ak] = tIte(cond, "(+ "+acur+" 1)", acur)
		if len(v.L) > 0 {
			aprev, ok := st.ghostInt["lastsent:"+ak]
			if !ok {
				aprev = rnil
			}
			st.ghostInt["lastsent:"+ak] = tIte(cond, v.L[0], aprev)
		}
		x.noteLast(st, "lastsent:", ak, v, cond)
		x.noteLast(st, "sentch:", ak, ch, cond)
	}
	prev, ok := st.ghostInt["lastsent:"+ck]
	if !ok {
		prev = rnil
	}
	if len(v.L) > 0 {
		st.ghostInt["lastsent:"+ck] = tIte(cond, v.L[0], prev)
	}
	x.noteLast(st, "lastsent:", ck, v, cond)
	x.noteLast(st, "sentch:", ck, ch, cond)
}

// noteLast keeps every leaf of the last value sent on / received from a channel key
// (multi-leaf element types such as interfaces).
func (x *Exec) noteLast(st *State, pfx, ck string, v Val, cond Term) {
	if x.chanElem == nil {
		x.chanElem = map[string]types.Type{}
	}
	x.chanElem[pfx+ck] = v.T
	z := zeroVal(v.T)
	for i := range v.L {
		k := fmt.Sprintf("%s%s#%d", pfx, ck, i)
		prev, ok := st.ghostInt[k]
		if !ok {
			prev = z.L[i]
		}
		st.ghostInt[k] = tIte(cond, v.L[i], prev)
	}
}

// noteRecv counts values taken from a channel key on this path (ghost nrecv / lastrecv).
func (x *Exec) noteRecv(st *State, chv ssa.Value, chVal Val, v Val, cond Term) {
	ck := x.chanKey(chv)
	if ck == "" {
		if n := x.localNameOf(st.top().fn, chv); n != "" {
			ck = "local." + n
		}
	}
	if ck == "" {
		ck = anyChanKey(chv.Type())
	}
	if ck == "" {
		return
	}
	key := "recv:" + ck
	cur, ok := st.ghostInt[key]
	if !ok {
		cur = "0"
	}
	st.ghostInt[key] = tIte(cond, "(+ "+cur+" 1)", cur)
	x.noteLast(st, "lastrecv:", ck, v, cond)
	x.noteLast(st, "recvch:", ck, chVal, cond)
	if ak := anyChanKey(chv.Type()); ak != "" && ak != ck {
		acur, ok := st.ghostInt["recv:"+ak]
		if !ok {
			acur = "0"
		}
		st.ghostInt["recv:"+ak] = tIte(cond, "(+ "+acur+" 1)", acur)
		x.noteLast(st, "lastrecv:", ak, v, cond)
		x.noteLast(st, "recvch:", ak, chVal, cond)
	}
}

func (x *Exec) send(st *State, in *ssa.Send) {
	ch := x.value(st, in.Chan)
	v := x.value(st, in.X)
	x.noteSend(st, in.Chan, ch, v, "true", in.Pos())
}

func (x *Exec) selectStmt(st *State, b *ssa.BasicBlock, idx int, in *ssa.Select) bool {
	n := len(in.States)
	index := x.d.FreshConst("sel", "Int")
	lo := "0"
	if !in.Blocking {
		lo = "(- 1)"
	}
	st.assume(tAnd("(<= "+lo+" "+index+")", fmt.Sprintf("(< %s %d)", index, n)))
	out := Val{T: in.Type()}
	out.L = append(out.L, index)
	recvOk := x.d.FreshConst("selok", "Bool")
	out.L = append(out.L, recvOk)
	for k, s := range in.States {
		ch := x.value(st, s.Chan)
		chosen := tEq(index, fmt.Sprint(k))
		if s.Dir == types.SendOnly {
			v := x.value(st, s.Send)
			x.noteSend(st, s.Chan, ch, v, chosen, s.Pos)
		} else {
			et := s.Chan.Type().Underlying().(*types.Chan).Elem()
			v := st.freshVal("selrcv", et)
			st.assume(tImp(tAnd(chosen, recvOk), x.chanInvFor(st, s.Chan, ch, v)))
			// a receive from a channel that is never closed always yields a sent value
			x.d.DeclareFun("uf_neverclosed_0", []string{"Ref"}, "Bool")
			st.assume(tImp(tAnd(chosen, "(uf_neverclosed_0 "+ch.L[0]+")"), recvOk))
			x.noteRecv(st, s.Chan, ch, v, tAnd(chosen, recvOk))
			z := zeroVal(et)
			for i := range v.L {
				out.L = append(out.L, tIte(recvOk, v.L[i], z.L[i]))
			}
		}
	}
	x.setReg(st, in, out)
	return true
}

// ---- locks (monitors) -------------------------------------------------------------------

func (x *Exec) lockCheck(st *State, addr Term, t types.Type, what string, pos token.Pos, write bool) {}

// monitorOf: is v the map held in a monitor-protected struct field? Returns the monitor.
func (x *Exec) monitorOf(v ssa.Value) (*Monitor, *ssa.FieldAddr) {
	u, ok := v.(*ssa.UnOp)
	if !ok || u.Op != token.MUL {
		return nil, nil
	}
	fa, ok := u.X.(*ssa.FieldAddr)
	if !ok {
		return nil, nil
	}
	stt := fa.X.Type().Underlying().(*types.Pointer).Elem()
	owner := typeRelName(x.prog, stt)
	fname := stt.Underlying().(*types.Struct).Field(fa.Field).Name()
	for _, m := range x.prog.spec.Monitors {
		if m.Owner != owner {
			continue
		}
		for _, p := range m.Protects {
			if p == fname {
				return m, fa
			}
		}
	}
	return nil, nil
}

// mutexAddrOf: address term of the monitor's mutex in the same object as fa.
func (x *Exec) mutexAddrOf(st *State, m *Monitor, fa *ssa.FieldAddr) Term {
	obj := x.value(st, fa.X)
	stt := fa.X.Type().Underlying().(*types.Pointer).Elem().Underlying().(*types.Struct)
	for i := 0; i < stt.NumFields(); i++ {
		if stt.Field(i).Name() == m.Mutex {
			return extend(obj.L[0], []int{i})
		}
	}
	panic(specErr{"monitor mutex field not found: " + m.Mutex})
}

// monitorAccess: obligations/assumptions for an access to a protected map.
func (x *Exec) monitorAccess(st *State, mapv ssa.Value, write bool, k, v *Val, okT Term, pos token.Pos) {
	m, fa := x.monitorOf(mapv)
	if m == nil {
		return
	}
	mu := x.mutexAddrOf(st, m, fa)
	mode := st.held[mu]
	need := "held"
	okHeld := mode
	if write {
		need = "held exclusively"
		okHeld = mode && st.heldW[mu]
	}
	goal := Term("false")
	if okHeld {
		goal = "true"
	}
	x.oblige(st, "lockheld", m.Owner+"."+m.Protects[0], goal, x.spec.Props, "access to "+m.Owner+"."+m.Protects[0]+" with "+m.Mutex+" "+need, pos)
	if m.Inv != nil && k != nil && v != nil {
		env := &Env{x: x, st: st, old: x.entry, vars: map[string]Val{"k": *k, "v": *v}, what: "monitor invariant " + m.Owner + "." + m.Protects[0]}
		g := env.evalBool(m.Inv.Expr)
		if write {
			x.oblige(st, "monitorinv", m.Owner+"."+m.Protects[0], g, x.spec.Props, "entry stored in "+m.Protects[0]+" satisfies the monitor invariant: "+m.Inv.Text, pos)
		} else {
			st.assume(tImp(okT, g))
		}
	}
	if write {
		key := "writes:" + m.Owner + "." + m.Protects[0]
		cur, ok := st.ghostInt[key]
		if !ok {
			cur = "0"
		}
		st.ghostInt[key] = "(+ " + cur + " 1)"
	}
}

// lockOp models Lock/RLock/Unlock/RUnlock on a mutex at address mu.
func (x *Exec) lockOp(st *State, name string, arg ssa.Value, mu Term, pos token.Pos) {
	acquire := strings.HasSuffix(name, ".Lock") || strings.HasSuffix(name, ".RLock")
	excl := strings.HasSuffix(name, ".Lock") || strings.HasSuffix(name, ".Unlock")
	if acquire {
		st.held[mu] = true
		if excl {
			st.heldW[mu] = true
		}
		// a monitor's protected state may have been changed by other threads: forget it
		if fa, ok := arg.(*ssa.FieldAddr); ok {
			stt := fa.X.Type().Underlying().(*types.Pointer).Elem()
			owner := typeRelName(x.prog, stt)
			fname := stt.Underlying().(*types.Struct).Field(fa.Field).Name()
			for _, m := range x.prog.spec.Monitors {
				if m.Owner != owner || m.Mutex != fname {
					continue
				}
				obj := x.value(st, fa.X)
				sst := stt.Underlying().(*types.Struct)
				for i := 0; i < sst.NumFields(); i++ {
					for _, p := range m.Protects {
						if sst.Field(i).Name() != p {
							continue
						}
						if mt, ok := sst.Field(i).Type().Underlying().(*types.Map); ok {
							mref := st.loadIn(nil, "Ref", extend(obj.L[0], []int{i}))
							dom, val, _, hasVal := mapSorts(mt)
							st.storeLeaf(dom, extend(mref, []int{0}), x.d.FreshConst("mon", dom))
							if hasVal {
								st.storeLeaf(val, extend(mref, []int{1}), x.d.FreshConst("mon", val))
							}
							if _, seen := st.ghostInt["lockdom:"+owner+"."+p]; !seen {
								// the table as found at the first acquisition in this function
								st.ghostInt["lockdom:"+owner+"."+p] = st.loadIn(nil, dom, extend(mref, []int{0}))
							}
						}
					}
				}
			}
		}
		return
	}
	// release
	if !st.held[mu] {
		x.oblige(st, "unlock", describe(arg), "false", x.spec.Props, "unlock of a mutex that is not held", pos)
	}
	if fa, ok := arg.(*ssa.FieldAddr); ok {
		stt := fa.X.Type().Underlying().(*types.Pointer).Elem()
		owner := typeRelName(x.prog, stt)
		fname := stt.Underlying().(*types.Struct).Field(fa.Field).Name()
		for _, m := range x.prog.spec.Monitors {
			if m.Owner != owner || m.Mutex != fname {
				continue
			}
			obj := x.value(st, fa.X)
			sst := stt.Underlying().(*types.Struct)
			for i := 0; i < sst.NumFields(); i++ {
				for _, p := range m.Protects {
					if sst.Field(i).Name() == p {
						if mt, ok := sst.Field(i).Type().Underlying().(*types.Map); ok {
							mref := st.loadIn(nil, "Ref", extend(obj.L[0], []int{i}))
							dom, _, _, _ := mapSorts(mt)
							st.ghostInt["unlockdom:"+owner+"."+p] = st.loadIn(nil, dom, extend(mref, []int{0}))
						}
					}
				}
			}
		}
	}
	delete(st.held, mu)
	delete(st.heldW, mu)
}

func (x *Exec) loadShared(st *State, addr Term, t types.Type, src ssa.Value) Val {
	return st.loadVal(addr, t)
}

// ---- replay bookkeeping --------------------------------------------------------------------

type ReplayParam struct {
	Name string
	Type types.Type
	Val  Val
}

type ReplayInfo struct {
	Func   string
	Params []ReplayParam
}

func sortedKeys(m map[string]bool) []string {
	var out []string
	for k := range m {
		out = append(out, k)
	}
	sort.Strings(out)
	return out
}


// sprintf gives fmt.Sprintf its meaning for formats made of literal text and
// %v verbs whose arguments are strings or package values with a String()
// method under contract (fmt calls that method). Anything else: no model.
func (x *Exec) sprintf(st *State, c *ssa.CallCommon, args []Val, pos token.Pos) (Term, bool) {
	fc, ok := c.Args[0].(*ssa.Const)
	if !ok || fc.Value == nil || len(args) != 2 {
		return "", false
	}
	format := constant.StringVal(fc.Value)
	pieces := strings.Split(format, "%v")
	for _, p := range pieces {
		if strings.Contains(p, "%") {
			return "", false
		}
	}
	sl := args[1]
	anyT := sl.T.Underlying().(*types.Slice).Elem()
	var parts []Term
	for i, p := range pieces {
		if p != "" {
			parts = append(parts, tStr(p))
		}
		if i == len(pieces)-1 {
			break
		}
		ev := st.loadVal(extendIdx(sl.L[0], tAddInt(sl.L[1], fmt.Sprint(i))), anyT)
		id, err := strconv.Atoi(ev.L[0])
		if err != nil {
			return "", false
		}
		dt, known := x.prog.typeByID[id]
		if !known {
			return "", false
		}
		var m *ssa.Function
		if sel := types.NewMethodSet(dt).Lookup(x.prog.pkg.Types, "String"); sel != nil {
			m = x.prog.prog.MethodValue(sel)
		}
		if m != nil && m.Signature.Params().Len() == 0 {
			fs := x.prog.spec.Funcs[x.prog.relName(m)]
			if fs == nil {
				return "", false
			}
			var rv Val
			if isPointerLike(dt) {
				rv = Val{T: dt, L: []Term{ev.L[1]}}
			} else if isStringKinded(dt) {
				rv = Val{T: dt, L: []Term{unboxString(ev.L[1])}}
			} else {
				rv = st.loadVal(ev.L[1], dt)
			}
			res := x.applySpec(st, fs, x.paramNames(m), []Val{rv}, m.Signature, callCtx{label: x.prog.relName(m), pos: pos})
			parts = append(parts, res.L[0])
			continue
		}
		if isStringKinded(dt) {
			parts = append(parts, unboxString(ev.L[1]))
			continue
		}
		return "", false
	}
	switch len(parts) {
	case 0:
		return tStr(""), true
	case 1:
		return parts[0], true
	}
	return "(str.++ " + strings.Join(parts, " ") + ")", true
}
