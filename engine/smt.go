package main

import (
	"fmt"
	"sort"
	"strings"
)

const smtPreamble = `(declare-datatypes ((Path 0)) (((pnil) (pfld (pfp Path) (pfi Int)) (pidx (pip Path) (pii Int)) (pgh (pgp Path) (pgi Int)) (pstr (pstrv String)))))
(declare-datatypes ((Ref 0)) (((mkref (rid Int) (rpath Path)))))
(define-fun orid ((r Ref)) Int (ite (< (rid r) 0) (- (- (rid r)) 1) (rid r)))
`

const rnil = "(mkref 0 pnil)"

func tAnd(ts ...Term) Term {
	var out []Term
	for _, t := range ts {
		if t == "true" {
			continue
		}
		if t == "false" {
			return "false"
		}
		out = append(out, t)
	}
	switch len(out) {
	case 0:
		return "true"
	case 1:
		return out[0]
	}
	return "(and " + strings.Join(out, " ") + ")"
}

func tOr(ts ...Term) Term {
	var out []Term
	for _, t := range ts {
		if t == "false" {
			continue
		}
		if t == "true" {
			return "true"
		}
		out = append(out, t)
	}
	switch len(out) {
	case 0:
		return "false"
	case 1:
		return out[0]
	}
	return "(or " + strings.Join(out, " ") + ")"
}

func tNot(t Term) Term {
	switch t {
	case "true":
		return "false"
	case "false":
		return "true"
	}
	if strings.HasPrefix(t, "(not ") && balancedOne(t[5:len(t)-1]) {
		return t[5 : len(t)-1]
	}
	return "(not " + t + ")"
}

// balancedOne reports whether s is exactly one s-expression.
func balancedOne(s string) bool {
	depth := 0
	inStr := false
	for i := 0; i < len(s); i++ {
		c := s[i]
		if inStr {
			if c == '"' {
				inStr = false
			}
			continue
		}
		switch c {
		case '"':
			inStr = true
		case '(':
			depth++
		case ')':
			depth--
			if depth < 0 {
				return false
			}
			if depth == 0 && i != len(s)-1 {
				return false
			}
		case ' ':
			if depth == 0 {
				return false
			}
		}
	}
	return depth == 0
}

func tImp(a, b Term) Term {
	if a == "true" {
		return b
	}
	if a == "false" || b == "true" {
		return "true"
	}
	return "(=> " + a + " " + b + ")"
}

func tEq(a, b Term) Term {
	if a == b {
		return "true"
	}
	return "(= " + a + " " + b + ")"
}

func tIte(c, a, b Term) Term {
	if c == "true" {
		return a
	}
	if c == "false" {
		return b
	}
	if a == b {
		return a
	}
	return "(ite " + c + " " + a + " " + b + ")"
}

func tSel(arr, idx Term) Term      { return "(select " + arr + " " + idx + ")" }
func tStore(arr, idx, v Term) Term { return "(store " + arr + " " + idx + " " + v + ")" }
func tRid(r Term) Term {
	if strings.HasPrefix(r, "(mkref ") {
		// (mkref <rid> <path>) — extract rid when it is a simple token or parenthesised term
		rest := r[7 : len(r)-1]
		if a, _, ok := splitFirst(rest); ok {
			return a
		}
	}
	return "(rid " + r + ")"
}
func tRpath(r Term) Term {
	if strings.HasPrefix(r, "(mkref ") {
		rest := r[7 : len(r)-1]
		if _, b, ok := splitFirst(rest); ok {
			return b
		}
	}
	return "(rpath " + r + ")"
}

// splitFirst splits "A B" where A and B are single s-expressions.
func splitFirst(s string) (string, string, bool) {
	depth := 0
	inStr := false
	for i := 0; i < len(s); i++ {
		c := s[i]
		if inStr {
			if c == '"' {
				inStr = false
			}
			continue
		}
		switch c {
		case '"':
			inStr = true
		case '(':
			depth++
		case ')':
			depth--
		case ' ':
			if depth == 0 {
				a, b := s[:i], s[i+1:]
				if balancedOne(a) && balancedOne(b) {
					return a, b, true
				}
				return "", "", false
			}
		}
	}
	return "", "", false
}

func tIsNil(r Term) Term { return tEq(tRid(r), "0") }

func tInt(n int64) Term {
	if n < 0 {
		return fmt.Sprintf("(- %d)", -n)
	}
	return fmt.Sprintf("%d", n)
}

func tStr(s string) Term {
	var b strings.Builder
	b.WriteByte('"')
	for _, r := range s {
		switch {
		case r == '"':
			b.WriteString(`""`)
		case r == '\\':
			b.WriteString(`\u{5c}`)
		case r >= 0x20 && r < 0x7f:
			b.WriteRune(r)
		default:
			fmt.Fprintf(&b, `\u{%x}`, r)
		}
	}
	b.WriteByte('"')
	return b.String()
}

// extend returns the address of the sub-object reached from addr by the static path.
func extend(addr Term, path []int) Term {
	if len(path) == 0 {
		return addr
	}
	p := tRpath(addr)
	for _, s := range path {
		if s < 0 {
			p = fmt.Sprintf("(pidx %s %d)", p, -s-1)
		} else {
			p = fmt.Sprintf("(pfld %s %d)", p, s)
		}
	}
	return "(mkref " + tRid(addr) + " " + p + ")"
}

func extendIdx(addr Term, idx Term) Term {
	return "(mkref " + tRid(addr) + " (pidx " + tRpath(addr) + " " + idx + "))"
}

// Ghost cells live in a separate (negative) rid space, so that no real cell —
// whatever its path — can coincide with a ghost cell. orid recovers the owner.
func extendGhost(addr Term, k int) Term {
	return fmt.Sprintf("(mkref (- (- %s) 1) (pgh %s %d))", tRid(addr), tRpath(addr), k)
}

// tOrid: the rid of the object an address (real or ghost cell) belongs to.
func tOrid(addr Term) Term {
	r := tRid(addr)
	if strings.HasPrefix(r, "(- (- ") && strings.HasSuffix(r, ") 1)") {
		return r[6 : len(r)-4]
	}
	if strings.HasPrefix(r, "alloc_") || r == "0" {
		return r
	}
	return "(orid " + addr + ")"
}

func zeroOfSort(s string) Term {
	switch s {
	case "Bool":
		return "false"
	case "Int":
		return "0"
	case "String":
		return `""`
	case "Real":
		return "0.0"
	case "Ref":
		return rnil
	}
	if strings.HasPrefix(s, "(Array ") {
		// constant array of the zero of the element sort
		k, v, ok := splitFirst(s[7 : len(s)-1])
		if !ok {
			panic("bad array sort " + s)
		}
		_ = k
		return "((as const " + s + ") " + zeroOfSort(v) + ")"
	}
	panic("zeroOfSort: " + s)
}

// Decls is the registry of declared/defined SMT symbols of one function's
// verification; queries include only the symbols they (transitively) use.
type Decls struct {
	order []string
	text  map[string]string
	deps  map[string][]string
	n     int
}

func newDecls() *Decls {
	return &Decls{text: map[string]string{}, deps: map[string][]string{}}
}

func (d *Decls) fresh(prefix string) string {
	d.n++
	return fmt.Sprintf("%s_%d", prefix, d.n)
}

func (d *Decls) Declare(name, sort string) string {
	if _, ok := d.text[name]; ok {
		return name
	}
	d.order = append(d.order, name)
	d.text[name] = fmt.Sprintf("(declare-fun %s () %s)", name, sort)
	return name
}

func (d *Decls) DeclareFun(name string, args []string, sort string) string {
	if _, ok := d.text[name]; ok {
		return name
	}
	d.order = append(d.order, name)
	d.text[name] = fmt.Sprintf("(declare-fun %s (%s) %s)", name, strings.Join(args, " "), sort)
	return name
}

func (d *Decls) Define(name, sort, body string) string {
	if _, ok := d.text[name]; ok {
		return name
	}
	d.order = append(d.order, name)
	d.text[name] = fmt.Sprintf("(define-fun %s () %s %s)", name, sort, body)
	d.deps[name] = d.symbolsIn(body)
	return name
}

func (d *Decls) FreshConst(prefix, sort string) string {
	return d.Declare(d.fresh(prefix), sort)
}

func (d *Decls) FreshDef(prefix, sort, body string) string {
	return d.Define(d.fresh(prefix), sort, body)
}

func (d *Decls) symbolsIn(s string) []string {
	var out []string
	seen := map[string]bool{}
	i := 0
	for i < len(s) {
		c := s[i]
		switch {
		case c == '"':
			i++
			for i < len(s) {
				if s[i] == '"' {
					if i+1 < len(s) && s[i+1] == '"' {
						i += 2
						continue
					}
					break
				}
				i++
			}
			i++
		case c == '(' || c == ')' || c == ' ' || c == '\n' || c == '\t':
			i++
		default:
			j := i
			for j < len(s) && s[j] != '(' && s[j] != ')' && s[j] != ' ' && s[j] != '\n' && s[j] != '\t' && s[j] != '"' {
				j++
			}
			tok := s[i:j]
			if _, ok := d.text[tok]; ok && !seen[tok] {
				seen[tok] = true
				out = append(out, tok)
			}
			i = j
		}
	}
	return out
}

// Query renders a complete SMT-LIB script asserting asms and (not goal).
func (d *Decls) Query(asms []Term, goal Term, getValues []Term) string {
	need := map[string]bool{}
	var stack []string
	push := func(s string) {
		for _, n := range d.symbolsIn(s) {
			if !need[n] {
				need[n] = true
				stack = append(stack, n)
			}
		}
	}
	for _, a := range asms {
		push(a)
	}
	push(goal)
	for _, g := range getValues {
		push(g)
	}
	for len(stack) > 0 {
		n := stack[len(stack)-1]
		stack = stack[:len(stack)-1]
		for _, m := range d.deps[n] {
			if !need[m] {
				need[m] = true
				stack = append(stack, m)
			}
		}
	}
	var b strings.Builder
	b.WriteString(smtPreamble)
	for _, n := range d.order {
		if need[n] {
			b.WriteString(d.text[n])
			b.WriteByte('\n')
		}
	}
	for _, a := range asms {
		if a == "true" {
			continue
		}
		b.WriteString("(assert " + a + ")\n")
	}
	b.WriteString("(assert " + tNot(goal) + ")\n")
	b.WriteString("(check-sat)\n")
	if len(getValues) > 0 {
		// de-duplicate, keep order
		seen := map[string]bool{}
		var gv []string
		for _, g := range getValues {
			if !seen[g] {
				seen[g] = true
				gv = append(gv, g)
			}
		}
		sort.Strings(gv)
		b.WriteString("(get-value (" + strings.Join(gv, " ") + "))\n")
	}
	return b.String()
}


// Boxing of string-kinded values in interfaces is canonical: the payload
// reference is a function of the string, so that interface equality compares
// boxed strings by value, as Go does.
const strBoxRid = "9997"

func boxString(s Term) Term   { return "(mkref " + strBoxRid + " (pstr " + s + "))" }
func unboxString(p Term) Term { return "(pstrv (rpath " + p + "))" }
