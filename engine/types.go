package main

// Value layout: every Go type is flattened into a vector of SMT "leaves".
// A symbolic value (Val) of type T is one SMT term per leaf of T, in the order
// produced by leavesOf(T). Memory is one SMT array per leaf *sort*
// (Array Ref <sort>); the address of a leaf is the address of the enclosing
// object extended by the leaf's static path.

import (
	"fmt"
	"go/types"
	"strings"
)

type Term = string

type LeafKind int

const (
	LkPlain   LeafKind = iota
	LkRef              // pointer-like (pointer, chan, func, map object)
	LkTag              // interface type tag
	LkPayload          // interface payload reference
	LkSlArr            // slice: backing array reference
	LkSlOff            // slice: offset into backing array
	LkSlLen            // slice: length
	LkMapDom           // (inside a map object) domain array
	LkMapVal           // (inside a map object) value array
)

type Leaf struct {
	Path []int // field-index steps from the object's address
	Sort string
	Kind LeafKind
	T    types.Type // the Go type this leaf (or its enclosing composite) belongs to
}

type Val struct {
	T types.Type
	L []Term
}

var leafCache = map[string][]Leaf{}

func typeKey(t types.Type) string { return types.TypeString(t, nil) }

func sortOfBasic(b *types.Basic) string {
	info := b.Info()
	switch {
	case info&types.IsBoolean != 0:
		return "Bool"
	case info&types.IsInteger != 0:
		return "Int"
	case info&types.IsString != 0:
		return "String"
	case info&types.IsFloat != 0:
		return "Real"
	}
	if b.Kind() == types.UnsafePointer || b.Kind() == types.UntypedNil {
		return "Ref"
	}
	return "Int"
}

func leavesOf(t types.Type) []Leaf {
	k := typeKey(t)
	if l, ok := leafCache[k]; ok {
		return l
	}
	l := computeLeaves(t)
	leafCache[k] = l
	return l
}

func prefix(ls []Leaf, step int) []Leaf {
	out := make([]Leaf, len(ls))
	for i, l := range ls {
		p := append([]int{step}, l.Path...)
		out[i] = Leaf{Path: p, Sort: l.Sort, Kind: l.Kind, T: l.T}
	}
	return out
}

func computeLeaves(t types.Type) []Leaf {
	switch u := t.Underlying().(type) {
	case *types.Basic:
		s := sortOfBasic(u)
		k := LkPlain
		if s == "Ref" {
			k = LkRef
		}
		return []Leaf{{Sort: s, Kind: k, T: t}}
	case *types.Pointer, *types.Chan, *types.Signature, *types.Map:
		return []Leaf{{Sort: "Ref", Kind: LkRef, T: t}}
	case *types.Interface:
		return []Leaf{
			{Path: []int{0}, Sort: "Int", Kind: LkTag, T: t},
			{Path: []int{1}, Sort: "Ref", Kind: LkPayload, T: t},
		}
	case *types.Slice:
		return []Leaf{
			{Path: []int{0}, Sort: "Ref", Kind: LkSlArr, T: t},
			{Path: []int{1}, Sort: "Int", Kind: LkSlOff, T: t},
			{Path: []int{2}, Sort: "Int", Kind: LkSlLen, T: t},
		}
	case *types.Struct:
		var out []Leaf
		for i := 0; i < u.NumFields(); i++ {
			out = append(out, prefix(leavesOf(u.Field(i).Type()), i)...)
		}
		return out
	case *types.Array:
		if u.Len() > 16 {
			panic(unsupported("array type too large: " + t.String()))
		}
		var out []Leaf
		for i := 0; i < int(u.Len()); i++ {
			out = append(out, prefix(leavesOf(u.Elem()), -i-1)...) // negative step = index step
		}
		return out
	case *types.Tuple:
		var out []Leaf
		for i := 0; i < u.Len(); i++ {
			out = append(out, prefix(leavesOf(u.At(i).Type()), i)...)
		}
		return out
	}
	panic(unsupported("type not supported: " + t.String()))
}

// mapSorts returns the SMT sorts of the domain and value arrays of a map type.
// Keys with several leaves become nested arrays.
func mapSorts(m *types.Map) (dom, val string, nk int, hasVal bool) {
	kl := leavesOf(m.Key())
	vl := leavesOf(m.Elem())
	if len(vl) > 1 {
		panic(unsupported("map value type with several leaves: " + m.String()))
	}
	dom = "Bool"
	val = ""
	if len(vl) == 1 {
		val = vl[0].Sort
		hasVal = true
	}
	for i := len(kl) - 1; i >= 0; i-- {
		dom = fmt.Sprintf("(Array %s %s)", kl[i].Sort, dom)
		if hasVal {
			val = fmt.Sprintf("(Array %s %s)", kl[i].Sort, val)
		}
	}
	return dom, val, len(kl), hasVal
}

type unsupportedErr struct{ msg string }

func (u unsupportedErr) Error() string { return u.msg }
func unsupported(msg string) error    { return unsupportedErr{msg} }

// fieldRange returns the [lo,hi) leaf range of field i within struct type st.
func fieldRange(st *types.Struct, i int) (int, int) {
	lo := 0
	for j := 0; j < i; j++ {
		lo += len(leavesOf(st.Field(j).Type()))
	}
	return lo, lo + len(leavesOf(st.Field(i).Type()))
}

func tupleRange(tp *types.Tuple, i int) (int, int) {
	lo := 0
	for j := 0; j < i; j++ {
		lo += len(leavesOf(tp.At(j).Type()))
	}
	return lo, lo + len(leavesOf(tp.At(i).Type()))
}

func sanitize(s string) string {
	var b strings.Builder
	for _, r := range s {
		switch {
		case r >= 'a' && r <= 'z', r >= 'A' && r <= 'Z', r >= '0' && r <= '9':
			b.WriteRune(r)
		default:
			b.WriteByte('_')
		}
	}
	return b.String()
}

func isInterface(t types.Type) bool {
	_, ok := t.Underlying().(*types.Interface)
	return ok
}

func isPointerLike(t types.Type) bool {
	switch t.Underlying().(type) {
	case *types.Pointer, *types.Chan, *types.Signature, *types.Map:
		return true
	}
	if b, ok := t.Underlying().(*types.Basic); ok {
		return b.Kind() == types.UnsafePointer || b.Kind() == types.UntypedNil
	}
	return false
}
