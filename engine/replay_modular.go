package main

// Modular replay (DESIGN.md §9.8): the function under contract runs for real,
// the contracted in-package functions it calls are replaced, in a copy of its
// source file injected with -overlay, by stubs that (1) check the callee's
// preconditions on the actual arguments, (2) apply the model's values to the
// locations the callee's contract lists as modified and (3) return the model's
// results. This is the verifier's own (modular) counterexample executed on the
// real body; it is reported as such, never as an end-to-end failing input.

import (
	"bytes"
	"fmt"
	"go/ast"
	"go/parser"
	"go/printer"
	"go/token"
	"go/types"
	"os"
	"sort"
	"strings"

	"golang.org/x/tools/go/ssa"
	"golang.org/x/tools/go/types/typeutil"
)

type modRead struct {
	lhs  ast.Expr
	text string
	T    types.Type
	node *inNode
	once bool // a sync.Once ghost `fired`
}

type stubPlan struct {
	ev   *extEvent
	res  []*inNode
	mods []modRead
}

type stubInfo struct {
	name   string
	fn     *ssa.Function
	fs     *FuncSpec
	label  string
	nmods  []modRead // the static shape (lhs, type) from the first event of this callee
	skipped []string
}

// stubMods evaluates the callee's modifies clauses in the heap after the call.
func (x *Exec) stubMods(rs *State, ev *extEvent) []modRead {
	var out []modRead
	load := func(a Term, t types.Type) Val { return rs.loadValIn(ev.post, a, t) }
	for _, c := range ev.fs.Mod {
		txt := strings.TrimSpace(c.Text)
		if strings.HasPrefix(txt, "closed(") || strings.HasPrefix(txt, "*") {
			continue
		}
		v, ok := x.evalIn(rs, ev.post, txt, ev.vars)
		if !ok {
			continue
		}
		if strings.HasSuffix(txt, ".fired") && len(v.L) == 1 {
			out = append(out, modRead{lhs: c.Expr, text: txt, T: v.T, node: x.collectWith(load, v, 0), once: true})
			continue
		}
		if !simpleGhostType(v.T) {
			continue
		}
		if _, isStruct := v.T.Underlying().(*types.Struct); isStruct && !supportedForReplay(v.T) {
			continue
		}
		out = append(out, modRead{lhs: c.Expr, text: txt, T: v.T, node: x.collectWith(load, v, 2)})
	}
	return out
}

// rewriteCallers returns the source of g's file with every static call, inside g,
// to a stubbed callee replaced by a call of the stub.
func (b *goBuilder) rewriteCallers(g *ssa.Function, stubs map[string]*stubInfo) (file string, src []byte, err error) {
	prog := b.x.prog
	fset := prog.prog.Fset
	gpos := fset.Position(g.Pos())
	file = gpos.Filename
	var orig *ast.File
	for _, f := range prog.pkg.Syntax {
		if fset.Position(f.Pos()).Filename == file {
			orig = f
		}
	}
	if orig == nil {
		return "", nil, fmt.Errorf("source file of %s not found", g.Name())
	}
	var decl *ast.FuncDecl
	for _, d := range orig.Decls {
		if fd, ok := d.(*ast.FuncDecl); ok && fd.Name.Pos() == g.Pos() {
			decl = fd
		}
	}
	if decl == nil || decl.Body == nil {
		return "", nil, fmt.Errorf("declaration of %s not found", g.Name())
	}
	type repl struct {
		stub string
		recv string // receiver expression to pass first ("" for plain functions)
	}
	repls := map[int]repl{}
	info := prog.pkg.TypesInfo
	var problem error
	ast.Inspect(decl.Body, func(n ast.Node) bool {
		call, ok := n.(*ast.CallExpr)
		if !ok {
			return true
		}
		tf := typeutil.StaticCallee(info, call)
		if tf == nil {
			return true
		}
		sf := prog.prog.FuncValue(tf)
		if sf == nil {
			return true
		}
		si := stubs[prog.relName(sf)]
		if si == nil {
			return true
		}
		r := repl{stub: si.name}
		if sig := tf.Type().(*types.Signature); sig.Recv() != nil {
			sel, ok := call.Fun.(*ast.SelectorExpr)
			if !ok {
				problem = fmt.Errorf("method call of %s is not a selector", tf.Name())
				return true
			}
			var buf bytes.Buffer
			printer.Fprint(&buf, fset, sel.X)
			expr := buf.String()
			t := info.TypeOf(sel.X)
			if s := info.Selections[sel]; s != nil {
				idx := s.Index()
				for _, i := range idx[:len(idx)-1] {
					if pt, ok := t.Underlying().(*types.Pointer); ok {
						t = pt.Elem()
					}
					st, ok := t.Underlying().(*types.Struct)
					if !ok {
						problem = fmt.Errorf("embedded path of %s", tf.Name())
						return true
					}
					expr += "." + st.Field(i).Name()
					t = st.Field(i).Type()
				}
			}
			_, wantPtr := sig.Recv().Type().(*types.Pointer)
			_, havePtr := t.Underlying().(*types.Pointer)
			switch {
			case wantPtr && !havePtr:
				expr = "&" + expr
			case !wantPtr && havePtr:
				expr = "*" + expr
			}
			r.recv = "(" + expr + ")"
		}
		repls[fset.Position(call.Lparen).Offset] = r
		return true
	})
	if problem != nil {
		return "", nil, problem
	}
	// apply to a fresh parse of the same file
	data, err := os.ReadFile(file)
	if err != nil {
		return "", nil, err
	}
	fs2 := token.NewFileSet()
	f2, err := parser.ParseFile(fs2, file, data, parser.ParseComments)
	if err != nil {
		return "", nil, err
	}
	ast.Inspect(f2, func(n ast.Node) bool {
		call, ok := n.(*ast.CallExpr)
		if !ok {
			return true
		}
		r, ok := repls[fs2.Position(call.Lparen).Offset]
		if !ok {
			return true
		}
		call.Fun = ast.NewIdent(r.stub)
		if r.recv != "" {
			re, perr := parser.ParseExpr(r.recv)
			if perr != nil {
				problem = perr
				return true
			}
			call.Args = append([]ast.Expr{re}, call.Args...)
		}
		return true
	})
	if problem != nil {
		return "", nil, problem
	}
	var out bytes.Buffer
	if err := printer.Fprint(&out, fs2, f2); err != nil {
		return "", nil, err
	}
	return file, out.Bytes(), nil
}

// stubDecl prints the stub that stands for a contracted callee.
func (b *goBuilder) stubDecl(si *stubInfo) string {
	var sb strings.Builder
	f := si.fn
	sig := f.Signature
	names := b.x.paramNames(f)
	var ps []string
	for i, p := range f.Params {
		n := names[i]
		if n == "" || n == "_" {
			n = fmt.Sprintf("zza%d", i)
		}
		t := b.typeStr(p.Type())
		if sig.Variadic() && i == len(f.Params)-1 {
			t = "..." + b.typeStr(p.Type().(*types.Slice).Elem())
		}
		ps = append(ps, n+" "+t)
	}
	rn := resultNames(sig, si.fs.Results)
	var rs, rts []string
	for i := 0; i < sig.Results().Len(); i++ {
		t := b.typeStr(sig.Results().At(i).Type())
		rts = append(rts, t)
		rs = append(rs, rn[i]+" "+t)
	}
	fmt.Fprintf(&sb, "// stub of %s: its contract instead of its body\nfunc %s(%s) (%s) {\n", si.label, si.name, strings.Join(ps, ", "), strings.Join(rs, ", "))
	for i := range f.Params {
		n := names[i]
		if n != "" && n != "_" {
			fmt.Fprintf(&sb, "\t_ = %s\n", n)
		}
	}
	cp := &clausePrinter{x: b.x, fakes: true, looseEq: true}
	for k, c := range si.fs.Req {
		cp.fail = ""
		txt := cp.print(c.Expr)
		d := fmt.Sprint(k)
		if c.Label != "" {
			d = c.Label
		}
		if cp.fail != "" {
			fmt.Fprintf(&sb, "\t// precondition not checked at run time (%s): %s\n", cp.fail, strings.ReplaceAll(c.Text, "\n", " "))
			continue
		}
		fmt.Fprintf(&sb, "\tif !(%s) {\n\t\tzzPreFailed = append(zzPreFailed, %q)\n\t}\n", txt, si.label+":"+d)
	}
	if cp.usedGlob {
		b.usedGlob = true
	}
	if cp.needStrings {
		b.imports["strings"] = true
	}
	fmt.Fprintf(&sb, "\tzzr := zzCalls.next(%q)\n\t_ = zzr\n", si.label)
	nres := sig.Results().Len()
	lp := &clausePrinter{x: b.x, fakes: true}
	for k, m := range si.nmods {
		lp.fail = ""
		lhs := lp.print(m.lhs)
		if lp.fail != "" {
			if m.once {
				// a sync.Once field: fire it when the model says it has fired
				if sel, ok := m.lhs.(*ast.SelectorExpr); ok {
					lp.fail = ""
					oexpr := lp.print(sel.X)
					if lp.fail == "" {
						fmt.Fprintf(&sb, "\tif zzv, _ := zzr[%d].(bool); zzv {\n\t\t%s.Do(func() {})\n\t}\n", nres+k, oexpr)
						continue
					}
				}
			}
			fmt.Fprintf(&sb, "\t// effect on %s not applied (%s)\n", m.text, lp.fail)
			continue
		}
		if m.once {
			if sel, ok := m.lhs.(*ast.SelectorExpr); ok {
				fmt.Fprintf(&sb, "\tif zzv, _ := zzr[%d].(bool); zzv {\n\t\t%s.Do(func() {})\n\t}\n", nres+k, lp.print(sel.X))
			}
			continue
		}
		fmt.Fprintf(&sb, "\tif zzv, ok := zzr[%d].(%s); ok {\n\t\t%s = zzv\n\t}\n", nres+k, b.typeStr(m.T), lhs)
	}
	if lp.usedGlob {
		b.usedGlob = true
	}
	for i := range rts {
		fmt.Fprintf(&sb, "\t%s, _ = zzr[%d].(%s)\n", rn[i], i, rts[i])
	}
	fmt.Fprintf(&sb, "\treturn\n}\n")
	return sb.String()
}

func sortedStubNames(m map[string]*stubInfo) []string {
	var ks []string
	for k := range m {
		ks = append(ks, k)
	}
	sort.Strings(ks)
	return ks
}
