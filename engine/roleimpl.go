package main

// In-package implementations of callback roles (DESIGN.md §9.11): a role contract
// is assumed wherever a function value is called. Where the package itself
// supplies such functions — the values it stores in a table (`element of G`) or
// passes to a registration function (`param P of F`) — those functions are
// found on every run and verified against the role's contract, so the
// assumption is discharged for the package's own code.

import (
	"fmt"
	"go/token"
	"sort"
	"strings"

	"golang.org/x/tools/go/ssa"
)

type roleImpl struct {
	fn   *ssa.Function
	role *FuncSpec
	from string
}

func (p *Program) roleImplementations() (impls []roleImpl, unseen []string) {
	var names []string
	for n := range p.funcs {
		names = append(names, n)
	}
	sort.Strings(names)
	resolve := func(v ssa.Value, depth int) []*ssa.Function { return nil }
	resolve = func(v ssa.Value, depth int) []*ssa.Function {
		switch v := v.(type) {
		case *ssa.Function:
			return []*ssa.Function{v}
		case *ssa.MakeClosure:
			if f, ok := v.Fn.(*ssa.Function); ok {
				return []*ssa.Function{f}
			}
		case *ssa.ChangeType:
			return resolve(v.X, depth)
		case *ssa.Call:
			// a function built by an in-package constructor: every value it returns
			if g := v.Call.StaticCallee(); g != nil && g.Pkg == p.spkg && depth > 0 && g.Blocks != nil {
				var out []*ssa.Function
				for _, b := range g.Blocks {
					for _, in := range b.Instrs {
						if r, ok := in.(*ssa.Return); ok && len(r.Results) == 1 {
							fs := resolve(r.Results[0], depth-1)
							if fs == nil {
								return nil
							}
							out = append(out, fs...)
						}
					}
				}
				return out
			}
		}
		return nil
	}
	var roleNames []string
	for n := range p.spec.Roles {
		roleNames = append(roleNames, n)
	}
	sort.Strings(roleNames)
	for _, rn := range roleNames {
		role := p.spec.Roles[rn]
		for _, site := range role.Sites {
			var vals []ssa.Value
			var where []string
			switch {
			case strings.HasPrefix(site, "element of "):
				g := strings.TrimPrefix(site, "element of ")
				for _, n := range names {
					fn := p.funcs[n]
					for _, b := range fn.Blocks {
						for _, in := range b.Instrs {
							mu, ok := in.(*ssa.MapUpdate)
							if !ok {
								continue
							}
							if u, ok := mu.Map.(*ssa.UnOp); ok && u.Op == token.MUL {
								if gl, ok := u.X.(*ssa.Global); ok && gl.Name() == g {
									vals = append(vals, mu.Value)
									where = append(where, n)
								}
							}
							if gl, ok := mu.Map.(*ssa.Global); ok && gl.Name() == g {
								vals = append(vals, mu.Value)
								where = append(where, n)
							}
							// the table built in a local and stored to the global afterwards (composite literal)
							if mk, ok := mu.Map.(*ssa.MakeMap); ok {
								for _, ref := range *mk.Referrers() {
									if st, ok := ref.(*ssa.Store); ok {
										if gl, ok := st.Addr.(*ssa.Global); ok && gl.Name() == g {
											vals = append(vals, mu.Value)
											where = append(where, n)
										}
									}
								}
							}
						}
					}
				}
			case strings.HasPrefix(site, "param "):
				// param P of F
				parts := strings.SplitN(strings.TrimPrefix(site, "param "), " of ", 2)
				if len(parts) != 2 {
					continue
				}
				target := p.funcs[parts[1]]
				if target == nil {
					continue
				}
				idx := -1
				for i, pr := range target.Params {
					if pr.Name() == parts[0] {
						idx = i
					}
				}
				if idx < 0 {
					continue
				}
				for _, n := range names {
					fn := p.funcs[n]
					pos := p.prog.Fset.Position(fn.Pos())
					if strings.HasSuffix(pos.Filename, "_test.go") {
						continue
					}
					for _, b := range fn.Blocks {
						for _, in := range b.Instrs {
							c, ok := in.(ssa.CallInstruction)
							if !ok {
								continue
							}
							if c.Common().StaticCallee() == target && idx < len(c.Common().Args) {
								a := c.Common().Args[idx]
								if _, isParam := a.(*ssa.Parameter); isParam {
									continue // forwarded from the caller's caller: user code
								}
								vals = append(vals, a)
								where = append(where, n)
							}
						}
					}
				}
			default:
				continue
			}
			for i, v := range vals {
				fs := resolve(v, 2)
				if fs == nil {
					// values that come from outside (configuration fields, parameters, table lookups) are user
					// code, bound by the role contract; only a function the package itself constructs in a way
					// the verifier cannot follow is reported
					cl, isCall := v.(*ssa.Call)
					if !isCall || cl.Call.StaticCallee() == nil || cl.Call.StaticCallee().Pkg != p.spkg {
						continue
					}
					unseen = append(unseen, fmt.Sprintf("role %s: a function value supplied in %s (%s) is not a function literal the verifier can follow", rn, where[i], site))
					continue
				}
				for _, f := range fs {
					impls = append(impls, roleImpl{fn: f, role: role, from: where[i]})
				}
			}
		}
	}
	return
}

// addRoleImplSpecs gives every discovered in-package implementation the role's contract
// (minus the clauses about self_, which define the role's uninterpreted tags).
func (p *Program) addRoleImplSpecs() []string {
	impls, unseen := p.roleImplementations()
	done := map[string]bool{}
	for _, im := range impls {
		name := p.relName(im.fn)
		if done[name] {
			continue
		}
		done[name] = true
		if _, has := p.spec.Funcs[name]; has {
			continue // has a contract of its own
		}
		if len(im.role.Props) == 0 {
			continue
		}
		fs := &FuncSpec{Kind: "func", Name: name, Loops: map[int]*LoopSpec{}, File: im.role.File, Line: im.role.Line,
			Props: im.role.Props, Params: nil, Results: im.role.Results, Mod: im.role.Mod, ModSet: im.role.ModSet, ModAll: im.role.ModAll}
		if len(im.role.Params) == len(im.fn.Params) {
			fs.Params = im.role.Params
		}
		for _, c := range im.role.Req {
			fs.Req = append(fs.Req, c)
		}
		for _, c := range im.role.Ens {
			if strings.Contains(c.Text, "self_") {
				continue
			}
			fs.Ens = append(fs.Ens, c)
		}
		fs.Notes = append(fs.Notes, "in-package implementation of callback role "+im.role.Name+" (supplied in "+im.from+")")
		p.spec.Funcs[name] = fs
		p.spec.Order = append(p.spec.Order, name)
	}
	return unseen
}
