package main

import (
	"hash/fnv"
	"bytes"
	"context"
	"fmt"
	"os"
	"os/exec"
	"path/filepath"
	"strings"
	"sync"
	"time"
)

type SolveResult struct {
	Status  string // unsat | sat | unknown
	Solver  string
	Seconds float64
	Model   string
	Output  string
	Agree   []string // solvers that returned the same decisive status (thorough tier)
}

type solverDef struct {
	name string
	args func(file string, timeoutS int, seed int) []string
}

var solvers = []solverDef{
	{"z3-new-5.1.0", func(f string, t int, seed int) []string {
		return []string{"z3-new", fmt.Sprintf("-T:%d", t), fmt.Sprintf("smt.random_seed=%d", seed), f}
	}},
	{"z3-4.8.12", func(f string, t int, seed int) []string {
		return []string{"/usr/bin/z3", fmt.Sprintf("-T:%d", t), fmt.Sprintf("smt.random_seed=%d", seed), f}
	}},
	{"cvc5-1.0", func(f string, t int, seed int) []string {
		return []string{"cvc5", "--lang=smt2", "--strings-exp", fmt.Sprintf("--tlimit=%d", t*1000), fmt.Sprintf("--seed=%d", seed), f}
	}},
}

func runSolver(ctx context.Context, s solverDef, file string, timeoutS int, seed int) *SolveResult {
	args := s.args(file, timeoutS, seed)
	start := time.Now()
	cctx, cancel := context.WithTimeout(ctx, time.Duration(timeoutS+2)*time.Second)
	defer cancel()
	cmd := exec.CommandContext(cctx, args[0], args[1:]...)
	var out bytes.Buffer
	cmd.Stdout = &out
	cmd.Stderr = &out
	_ = cmd.Run()
	text := out.String()
	first := strings.TrimSpace(strings.SplitN(text, "\n", 2)[0])
	r := &SolveResult{Solver: s.name, Seconds: time.Since(start).Seconds(), Output: text}
	switch first {
	case "unsat":
		r.Status = "unsat"
	case "sat":
		r.Status = "sat"
		if i := strings.Index(text, "\n"); i >= 0 {
			r.Model = strings.TrimSpace(text[i+1:])
		}
	default:
		r.Status = "unknown"
	}
	return r
}

// solve races the solvers on one query. In thorough mode it waits for all of
// them and records agreement.
func solve(query string, file string, timeoutS int, seed int, all bool) *SolveResult {
	full := "(set-option :produce-models true)\n(set-logic ALL)\n" + query
	if err := os.MkdirAll(filepath.Dir(file), 0o755); err != nil {
		return &SolveResult{Status: "unknown", Output: err.Error()}
	}
	if err := os.WriteFile(file, []byte(full), 0o644); err != nil {
		return &SolveResult{Status: "unknown", Output: err.Error()}
	}
	ctx, cancel := context.WithCancel(context.Background())
	defer cancel()
	ch := make(chan *SolveResult, len(solvers))
	// staggered race: most goals are decided by the first back end within a fraction of a
	// second; the other two are started only if it has not answered by then (quick tier)
	first := make(chan struct{})
	for i, s := range solvers {
		go func(i int, s solverDef) {
			if i > 0 && !all {
				select {
				case <-first:
					ch <- &SolveResult{Status: "unknown", Solver: s.name, Output: "not started: already decided"}
					return
				case <-time.After(1200 * time.Millisecond):
				case <-ctx.Done():
					ch <- &SolveResult{Status: "unknown", Solver: s.name, Output: "not started: already decided"}
					return
				}
			}
			r := runSolver(ctx, s, file, timeoutS, seed)
			if i == 0 && r.Status != "unknown" {
				close(first)
			}
			ch <- r
		}(i, s)
	}
	var results []*SolveResult
	var best *SolveResult
	// thorough tier: once one back end has decided, the others get a grace period
	// to agree or disagree (string goals make both z3 versions run into the timeout)
	var grace <-chan time.Time
loop:
	for range solvers {
		select {
		case r := <-ch:
			results = append(results, r)
			if r.Status != "unknown" {
				if best == nil {
					best = r
					grace = time.After(15 * time.Second)
				}
				if !all {
					break loop
				}
			}
		case <-grace:
			break loop
		}
	}
	if best == nil {
		var outs []string
		tot := 0.0
		for _, r := range results {
			outs = append(outs, r.Solver+": "+strings.TrimSpace(firstLines(r.Output, 3)))
			if r.Seconds > tot {
				tot = r.Seconds
			}
		}
		return &SolveResult{Status: "unknown", Solver: "none", Seconds: tot, Output: strings.Join(outs, "\n")}
	}
	if all {
		for _, r := range results {
			if r.Status == best.Status {
				best.Agree = append(best.Agree, r.Solver)
			} else if r.Status != "unknown" {
				// disagreement between back ends is itself a failure
				return &SolveResult{Status: "unknown", Solver: "disagreement", Seconds: best.Seconds,
					Output: fmt.Sprintf("%s says %s but %s says %s", best.Solver, best.Status, r.Solver, r.Status)}
			}
		}
	}
	return best
}

func firstLines(s string, n int) string {
	ls := strings.Split(s, "\n")
	if len(ls) > n {
		ls = ls[:n]
	}
	return strings.Join(ls, " | ")
}

// solveAll discharges obligations in parallel.
func solveAll(obls []*Obligation, dir string, timeoutS int, seed int, all bool, workers int) {
	var wg sync.WaitGroup
	sem := make(chan struct{}, workers)
	for i, o := range obls {
		if o.Res != nil {
			continue // decided without a solver (syntactic census)
		}
		if o.Goal == "true" {
			o.Res = &SolveResult{Status: "unsat", Solver: "simplifier"}
			continue
		}
		wg.Add(1)
		sem <- struct{}{}
		go func(i int, o *Obligation) {
			defer wg.Done()
			defer func() { <-sem }()
			q := o.decls.Query(o.Asms, o.Goal, o.GetVals)
			file := filepath.Join(dir, fmt.Sprintf("%04d_%s.smt2", i, fileBase(o.Name)))
			o.Res = solve(q, file, timeoutS, seed, all)
			defer func() {
				// disk: a property produces up to 1.5 GB of queries; only those that did not come out as
				// expected are worth keeping for inspection (LIMEVC_KEEP_SMT=1 keeps everything)
				good := "unsat"
				if o.Kind == "cover" {
					good = "sat"
				}
				if o.Res != nil && o.Res.Status == good && os.Getenv("LIMEVC_KEEP_SMT") == "" {
					os.Remove(file)
				}
			}()
			if o.Res.Status == "unknown" && !all && o.Res.Solver == "none" {
				// nobody answered within the quick budget (a loaded machine, or a hard goal): one
				// more attempt with all back ends at once and four times the budget before the
				// obligation is reported as undecided
				r2 := solve(q, file, timeoutS*4, seed, true)
				if r2.Status != "unknown" {
					r2.Seconds += o.Res.Seconds
					o.Res = r2
				}
			}
		}(i, o)
	}
	wg.Wait()
}

// fileBase: a file-name-safe rendering of an obligation name. File names are limited to 255 bytes:
// a long name keeps its head and gets a hash of the whole name.
func fileBase(name string) string {
	base := sanitize(name)
	if len(base) > 180 {
		h := fnv.New32a()
		h.Write([]byte(name))
		base = fmt.Sprintf("%s_%08x", base[:170], h.Sum32())
	}
	return base
}
