package main

// Machine arithmetic (DESIGN.md §9.12): Go integers are modelled as mathematical integers, so every
// +, -, * on a Go integer type and every narrowing integer conversion in a function under contract
// carries an obligation that the mathematical result lies in the range of the result type. With
// these discharged, the mathematical model and the machine agree on every value computed so far,
// which is what allows the range of the integer registers to be assumed in the next such obligation
// (induction over the path). Unsigned wrap-around, which Go defines, is flagged as well: the model
// would disagree with the machine there.

import (
	"fmt"
	"go/constant"
	"go/token"
	"go/types"
	"sort"
	"strings"

	"golang.org/x/tools/go/ssa"
)

func intRange(t types.Type) (lo, hi string, ok bool) {
	b, isB := t.Underlying().(*types.Basic)
	if !isB || b.Info()&types.IsInteger == 0 {
		return "", "", false
	}
	switch b.Kind() {
	case types.Int, types.Int64:
		return "(- 9223372036854775808)", "9223372036854775807", true
	case types.Int32:
		return "(- 2147483648)", "2147483647", true
	case types.Int16:
		return "(- 32768)", "32767", true
	case types.Int8:
		return "(- 128)", "127", true
	case types.Uint, types.Uint64, types.Uintptr:
		return "0", "18446744073709551615", true
	case types.Uint32:
		return "0", "4294967295", true
	case types.Uint16:
		return "0", "65535", true
	case types.Uint8:
		return "0", "255", true
	}
	return "", "", false
}

func inRangeTerm(t Term, ty types.Type) (Term, bool) {
	lo, hi, ok := intRange(ty)
	if !ok {
		return "", false
	}
	return Term("(and (<= " + lo + " " + string(t) + ") (<= " + string(t) + " " + hi + "))"), true
}

// regRanges: every integer register of the current frame holds a machine value of its type.
func (x *Exec) regRanges(st *State) []Term {
	fr := st.top()
	var out []string
	for v, val := range fr.regs {
		if _, isSl := v.Type().Underlying().(*types.Slice); isSl && len(val.L) == 3 {
			out = append(out, "(<= "+string(val.L[2])+" 9223372036854775807)")
			continue
		}
		if b, isB := v.Type().Underlying().(*types.Basic); isB && b.Info()&types.IsString != 0 && len(val.L) == 1 {
			// a Go string is at most MaxInt bytes long
			out = append(out, "(<= (str.len "+string(val.L[0])+") 9223372036854775807)")
			continue
		}
		if len(val.L) != 1 {
			continue
		}
		if _, isConst := v.(*ssa.Const); isConst {
			continue
		}
		if r, ok := inRangeTerm(val.L[0], v.Type()); ok {
			out = append(out, string(r))
		}
	}
	sort.Strings(out)
	res := make([]Term, len(out))
	for i, s := range out {
		res[i] = Term(s)
	}
	return res
}

func isConstVal(v ssa.Value) (constant.Value, bool) {
	if c, ok := v.(*ssa.Const); ok && c.Value != nil {
		return c.Value, true
	}
	return nil, false
}

// ghost code (lemma and spec functions in verif_contracts.go) is never executed: its integers are the
// mathematical ones
func (x *Exec) isGhostCode(in ssa.Instruction) bool {
	return strings.HasSuffix(x.prog.prog.Fset.Position(in.Parent().Pos()).Filename, "verif_contracts.go")
}

func (x *Exec) overflowCheck(st *State, in *ssa.BinOp, res Val) {
	if x.isGhostCode(in) {
		return
	}
	if in.Op != token.ADD && in.Op != token.SUB && in.Op != token.MUL {
		return
	}
	if len(res.L) != 1 {
		return
	}
	goal, ok := inRangeTerm(res.L[0], in.Type())
	if !ok {
		return
	}
	if _, a := isConstVal(in.X); a {
		if _, b := isConstVal(in.Y); b {
			return
		}
	}
	x.obligeUnder(st, x.regRanges(st), "overflow", in.Op.String()+" "+describe(in), goal, x.spec.Props,
		fmt.Sprintf("%s %s %s stays within the range of %s (machine arithmetic agrees with the mathematical model)", describe(in.X), in.Op, describe(in.Y), in.Type()), in.Pos())
}

func (x *Exec) convRangeCheck(st *State, in *ssa.Convert, res Val) {
	if x.isGhostCode(in) {
		return
	}
	flo, fhi, ok1 := intRange(in.X.Type())
	tlo, thi, ok2 := intRange(in.Type())
	if !ok1 || !ok2 || len(res.L) != 1 {
		return
	}
	if _, c := isConstVal(in.X); c {
		return
	}
	if flo == tlo && fhi == thi {
		return
	}
	goal, _ := inRangeTerm(res.L[0], in.Type())
	x.obligeUnder(st, x.regRanges(st), "overflow", "conv "+describe(in), goal, x.spec.Props,
		fmt.Sprintf("conversion %s -> %s keeps the value", in.X.Type(), in.Type()), in.Pos())
}

// obligeUnder emits an obligation with extra hypotheses that are not added to the path condition.
func (x *Exec) obligeUnder(st *State, hyps []Term, kind, detail string, goal Term, props []string, desc string, pos token.Pos) {
	n := len(st.asms)
	st.asms = append(st.asms[:n:n], hyps...)
	x.oblige(st, kind, detail, goal, props, desc, pos)
	st.asms = st.asms[:n]
}
