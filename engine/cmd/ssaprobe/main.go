package main

import (
	"fmt"
	"os"
	"sort"

	"golang.org/x/tools/go/packages"
	"golang.org/x/tools/go/ssa"
	"golang.org/x/tools/go/ssa/ssautil"
)

func main() {
	cfg := &packages.Config{Mode: packages.LoadAllSyntax, Dir: os.Args[1], BuildFlags: []string{"-tags=verif"}}
	pkgs, err := packages.Load(cfg, ".")
	if err != nil {
		panic(err)
	}
	if packages.PrintErrors(pkgs) > 0 {
		os.Exit(1)
	}
	prog, spkgs := ssautil.AllPackages(pkgs, 0)
	prog.Build()
	p := spkgs[0]
	want := map[string]bool{}
	for _, a := range os.Args[2:] {
		want[a] = true
	}
	var fns []*ssa.Function
	for fn := range ssautil.AllFunctions(prog) {
		if fn.Pkg == p {
			fns = append(fns, fn)
		}
	}
	sort.Slice(fns, func(i, j int) bool { return fns[i].RelString(p.Pkg) < fns[j].RelString(p.Pkg) })
	for _, fn := range fns {
		n := fn.RelString(p.Pkg)
		if len(want) == 0 {
			fmt.Println(n)
			continue
		}
		if want[n] {
			fn.WriteTo(os.Stdout)
		}
	}
}
