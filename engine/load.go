package main

import (
	"strconv"
	"fmt"
	"go/types"
	"os"
	"path/filepath"
	"sort"
	"strings"

	"golang.org/x/tools/go/packages"
	"golang.org/x/tools/go/ssa"
	"golang.org/x/tools/go/ssa/ssautil"
)

type Program struct {
	repo    string
	pkg     *packages.Package
	spkg    *ssa.Package
	prog    *ssa.Program
	spec    *Spec
	funcs   map[string]*ssa.Function // by package-relative name
	typeIDs map[string]int
	typeByID map[int]types.Type
	objIDs  map[string]int // globals and functions-as-values
	nObj    int
	pkgTypes []types.Type // all package-level named types T and *T, sorted
	contCache map[string]string
	roleUnseen []string // function values supplied to callback roles that could not be followed
	fakeTypes map[string]types.Type // replay: synthetic dynamic types of scripted fakes
	fakeIface map[int]types.Type    // fake type id -> the interface it fakes
	houdiniDropped map[string]bool  // refuted invariant candidates (houdini.go)
	goAlias   map[string]string     // spawned named function -> the literal name its contract was written for
	loadNotes []string
}

// rootOK returns an SMT predicate body over x (the root type id of an
// allocation) that holds iff an object of that root type may contain a T.
// Package-level types have ids 1..len(pkgTypes); any other id stands for a
// type outside the package, which may contain T only if T is exported or
// foreign.
func (p *Program) rootOK(t types.Type, x string) string {
	if p.contCache == nil {
		p.contCache = map[string]string{}
	}
	k := typeKey(t)
	tmpl, ok := p.contCache[k]
	if !ok {
		var alts []string
		for _, u := range p.pkgTypes {
			if _, isPtr := u.(*types.Pointer); isPtr {
				continue
			}
			if isInterface(u) {
				// a standalone cell of the interface type itself (captured variable, local)
				if types.Identical(u, t) {
					alts = append(alts, fmt.Sprintf("(= X %d)", p.typeID(u)))
				}
				continue
			}
			if containsType(u, t, 0) {
				alts = append(alts, fmt.Sprintf("(= X %d)", p.typeID(u)))
			}
		}
		closed := false
		if n, ok := t.(*types.Named); ok && n.Obj().Pkg() == p.pkg.Types && !n.Obj().Exported() {
			closed = true
		}
		if !closed {
			alts = append(alts, fmt.Sprintf("(> X %d)", len(p.pkgTypes)))
		}
		switch len(alts) {
		case 0:
			tmpl = "false"
		case 1:
			tmpl = alts[0]
		default:
			tmpl = "(or " + strings.Join(alts, " ") + ")"
		}
		p.contCache[k] = tmpl
	}
	return strings.ReplaceAll(tmpl, "X", x)
}

func loadProgram(repo string, specFiles []string, externFiles []string) (*Program, error) {
	cfg := &packages.Config{
		Mode:       packages.LoadAllSyntax,
		Dir:        repo,
		BuildFlags: []string{"-tags=verif"},
		Env:        append(os.Environ(), "GOFLAGS=-mod=mod", "GOPROXY=off", "GOSUMDB=off", "GOTOOLCHAIN=local"),
	}
	pkgs, err := packages.Load(cfg, ".")
	if err != nil {
		return nil, err
	}
	if packages.PrintErrors(pkgs) > 0 {
		return nil, fmt.Errorf("package load errors")
	}
	prog, spkgs := ssautil.AllPackages(pkgs, ssa.GlobalDebug)
	prog.Build()
	p := &Program{repo: repo, pkg: pkgs[0], spkg: spkgs[0], prog: prog, funcs: map[string]*ssa.Function{},
		typeIDs: map[string]int{}, typeByID: map[int]types.Type{}, objIDs: map[string]int{}}
	for fn := range ssautil.AllFunctions(prog) {
		if fn.Pkg == p.spkg {
			p.funcs[fn.RelString(p.spkg.Pkg)] = fn
		}
	}
	// stable type ids for the package's named types
	scope := p.pkg.Types.Scope()
	names := scope.Names()
	sort.Strings(names)
	for _, n := range names {
		if tn, ok := scope.Lookup(n).(*types.TypeName); ok {
			t := tn.Type()
			p.pkgTypes = append(p.pkgTypes, t, types.NewPointer(t))
			p.typeID(t)
			p.typeID(types.NewPointer(t))
		}
	}
	p.spec = newSpec()
	for _, f := range specFiles {
		if _, err := os.Stat(f); err != nil {
			continue
		}
		if err := p.spec.load(f, "//@"); err != nil {
			return nil, err
		}
	}
	for _, f := range externFiles {
		if err := p.spec.load(f, ""); err != nil {
			return nil, err
		}
	}
	if err := p.deriveAll(); err != nil {
		return nil, err
	}
	p.roleUnseen = p.addRoleImplSpecs()
	p.retargetLiteralSpecs()
	return p, nil
}

// retargetLiteralSpecs: a contract on a function literal is keyed by go/ssa's name for it (F$N). When the
// literal is gone but F is still there, a refactoring turned it into something else:
//   - F now spawns (go) a named in-package function G that has no contract of its own: the contract moves
//     to G (its clauses name captured variables, which are G's receiver/parameters now); `ngo("F$N")` in
//     F's own contract keeps counting the spawns of G (goAlias);
//   - otherwise the literal was replaced by a direct use of a function under contract (go srv.handleChannel
//     instead of go func(){ srv.handleChannel(..) }()): that function's own contract is what is checked at
//     the go statement, and the literal's contract has nothing left to talk about; it is dropped with a note.
// A literal whose parent is gone as well stays a dangling target (reported as <F$N>#contract).
func (p *Program) retargetLiteralSpecs() {
	var names []string
	for n := range p.spec.Funcs {
		names = append(names, n)
	}
	sort.Strings(names)
	for _, n := range names {
		i := strings.LastIndex(n, "$")
		if i < 0 || p.funcs[n] != nil {
			continue
		}
		parent := p.funcs[n[:i]]
		k, err := strconv.Atoi(n[i+1:])
		if parent == nil || err != nil || k < 1 {
			continue
		}
		fs := p.spec.Funcs[n]
		var cands []*ssa.Function
		seen := map[*ssa.Function]bool{}
		for _, b := range parent.Blocks {
			for _, in := range b.Instrs {
				g, ok := in.(*ssa.Go)
				if !ok {
					continue
				}
				f, ok := g.Common().Value.(*ssa.Function)
				if !ok || f.Parent() != nil || f.Pkg != p.spkg || seen[f] {
					continue
				}
				if p.spec.Funcs[p.relName(f)] == nil {
					seen[f] = true
					cands = append(cands, f)
				}
			}
		}
		delete(p.spec.Funcs, n)
		if k-1 < len(cands) {
			g := p.relName(cands[k-1])
			p.spec.Funcs[g] = fs
			if p.goAlias == nil {
				p.goAlias = map[string]string{}
			}
			p.goAlias[g] = n
			for j, o := range p.spec.Order {
				if o == n {
					p.spec.Order[j] = g
				}
			}
			p.loadNotes = append(p.loadNotes, fmt.Sprintf("contract of the function literal %s moved to %s (the literal became a named function spawned by %s)", n, g, n[:i]))
			continue
		}
		for j, o := range p.spec.Order {
			if o == n {
				p.spec.Order = append(p.spec.Order[:j:j], p.spec.Order[j+1:]...)
				break
			}
		}
		p.loadNotes = append(p.loadNotes, fmt.Sprintf("contract of the function literal %s dropped: %s no longer contains that literal", n, n[:i]))
	}
}

func (p *Program) typeID(t types.Type) int {
	k := typeKey(t)
	if id, ok := p.typeIDs[k]; ok {
		return id
	}
	id := len(p.typeIDs) + 1
	p.typeIDs[k] = id
	p.typeByID[id] = t
	return id
}

func (p *Program) objID(key string) int {
	if id, ok := p.objIDs[key]; ok {
		return id
	}
	p.nObj++
	p.objIDs[key] = p.nObj
	return p.nObj
}

// closedWorldTags: for an interface with unexported methods declared in the
// package under verification, only package types can implement it.
func (p *Program) closedWorldTags(t types.Type) []int {
	it, ok := t.Underlying().(*types.Interface)
	if !ok {
		return nil
	}
	unexp := false
	for i := 0; i < it.NumMethods(); i++ {
		m := it.Method(i)
		if !m.Exported() && m.Pkg() == p.pkg.Types {
			unexp = true
		}
	}
	if !unexp {
		return nil
	}
	var ids []int
	for _, c := range p.pkgTypes {
		if _, isI := c.Underlying().(*types.Interface); isI {
			continue
		}
		if types.Implements(c, it) {
			ids = append(ids, p.typeID(c))
		}
	}
	return ids
}

func (p *Program) relName(fn *ssa.Function) string {
	if fn.Pkg == p.spkg {
		return fn.RelString(p.spkg.Pkg)
	}
	if fn.Pkg == nil {
		// wrappers, bound methods, generic instances
		return fn.String()
	}
	return fn.String()
}

func (p *Program) lookupType(name string) types.Type {
	if o := p.pkg.Types.Scope().Lookup(name); o != nil {
		if tn, ok := o.(*types.TypeName); ok {
			return tn.Type()
		}
	}
	return nil
}

func (p *Program) importedPkg(name string) *types.Package {
	for _, imp := range p.pkg.Types.Imports() {
		if imp.Name() == name {
			return imp
		}
	}
	// look through all loaded packages (spec files may mention packages the
	// package imports only indirectly)
	var found *types.Package
	packages.Visit([]*packages.Package{p.pkg}, nil, func(q *packages.Package) {
		if q.Types != nil && q.Types.Name() == name && found == nil {
			found = q.Types
		}
	})
	return found
}

func absJoin(base, rel string) string {
	if filepath.IsAbs(rel) {
		return rel
	}
	return filepath.Join(base, rel)
}
