package main

import (
	"golang.org/x/tools/go/ssa"
	"encoding/json"
	"flag"
	"fmt"
	"os"
	"path/filepath"
	"sort"
	"strings"
	"time"
)

type runConfig struct {
	repo     string
	verif    string
	prop     string
	tier     string
	seed     int
	funcOnly string
	dump     bool
	timeout  int
	workers  int
	noReplay bool
	noEvidence bool
	rerun    string
	sigs     bool
	outDir   string
}

func hasProp(ps []string, p string) bool {
	for _, q := range ps {
		if q == p {
			return true
		}
	}
	return false
}

func main() {
	var rc runConfig
	flag.StringVar(&rc.repo, "repo", "/repo", "repository working tree to verify")
	flag.StringVar(&rc.verif, "verif", "/verif", "verification directory")
	flag.StringVar(&rc.prop, "prop", "", "property id (C01...)")
	flag.StringVar(&rc.tier, "tier", "quick", "quick | thorough")
	flag.IntVar(&rc.seed, "seed", 0, "solver random seed")
	flag.StringVar(&rc.funcOnly, "func", "", "verify only this function (debugging)")
	flag.BoolVar(&rc.dump, "dump", false, "print every obligation with its result")
	flag.IntVar(&rc.timeout, "timeout", 0, "solver timeout in seconds (0 = tier default)")
	flag.IntVar(&rc.workers, "workers", 12, "parallel obligations")
	flag.BoolVar(&rc.noReplay, "no-replay", false, "do not run replays")
	flag.StringVar(&rc.outDir, "out", "", "scratch/output directory (default <verif>/out)")
	flag.BoolVar(&rc.noEvidence, "no-evidence", false, "do not write the evidence file (self-test runs on scratch copies)")
	flag.BoolVar(&rc.sigs, "sigs", false, "print `NAME :: (params) (results)` for every in-package function under contract (to pin contract names)")
	flag.StringVar(&rc.rerun, "rerun", "", "re-run a previously generated replay test (path of the replay .txt or _test.go file)")
	flag.Parse()
	if rc.outDir == "" {
		rc.outDir = filepath.Join(rc.verif, "out")
	}
	if rc.timeout == 0 {
		rc.timeout = 10
		if rc.tier == "thorough" {
			rc.timeout = 60
		}
	}
	if rc.rerun != "" {
		os.Exit(rerun(&rc))
	}
	if rc.sigs {
		os.Exit(dumpSigs(&rc))
	}
	os.Exit(run(&rc))
}

// dumpSigs prints the current source names of receiver, parameters and results.
func dumpSigs(rc *runConfig) int {
	prog, err := loadProgram(rc.repo, []string{filepath.Join(rc.repo, "verif_contracts.go")}, []string{filepath.Join(rc.verif, "contracts", "extern.spec")})
	if err != nil {
		fmt.Println("load error:", err)
		return 2
	}
	for _, n := range prog.spec.Order {
		fn := prog.funcs[n]
		if fn == nil || fn.Parent() != nil {
			continue
		}
		var ps []string
		for _, p := range fn.Params {
			ps = append(ps, p.Name())
		}
		ok := true
		for _, p := range ps {
			if p == "" || p == "_" {
				ok = false
			}
		}
		if !ok {
			continue
		}
		rs := resultNames(fn.Signature, nil)
		fmt.Printf("%s :: (%s) (%s)\n", n, strings.Join(ps, ", "), strings.Join(rs, ", "))
	}
	return 0
}

// rerun executes a previously generated replay test again on /repo's current tree.
func rerun(rc *runConfig) int {
	path := rc.rerun
	if strings.HasSuffix(path, ".txt") {
		base := strings.TrimSuffix(path, ".txt")
		path = base + "_test.go"
		if _, err := os.Stat(base + "_modular_test.go"); err == nil {
			path = base + "_modular_test.go" // the replay that reproduced, if any, is the later one
		}
	}
	src, err := os.ReadFile(path)
	if err != nil {
		fmt.Printf("no replay test for %s: the violation was reported without a concrete input (see the .txt file for the failed obligation and the solver's model)\n", rc.rerun)
		return 2
	}
	name := ""
	for _, l := range strings.Split(string(src), "\n") {
		if strings.HasPrefix(l, "func TestReplay_") {
			name = l[len("func "):strings.Index(l, "(")]
		}
	}
	if name == "" {
		fmt.Printf("%s is not a replay test\n", path)
		return 2
	}
	// a modular replay also replaces the source file of the function (callees stubbed)
	extra := map[string]string{}
	if b, err := os.ReadFile(filepath.Join(filepath.Dir(path), "overlay_"+name+".json")); err == nil && strings.Contains(path, "_modular_test.go") {
		var ov map[string]map[string]string
		if json.Unmarshal(b, &ov) == nil {
			for k, v := range ov["Replace"] {
				if !strings.HasSuffix(k, "zz_limevc_replay_test.go") {
					extra[k] = v
				}
			}
		}
	}
	out, failed := runReplayTestWith(rc.repo, path, name, filepath.Dir(path), strings.Contains(name, "lemma"), extra)
	fmt.Print(out)
	if failed && strings.Contains(out, "REPLAY-VIOLATION") {
		fmt.Printf("VIOLATION property=%s replay=%s (reproduced on the current tree)\n", rc.prop, rc.rerun)
		return 1
	}
	fmt.Printf("replay of %s: not reproduced on the current tree\n", rc.rerun)
	return 0
}

func run(rc *runConfig) int {
	start := time.Now()
	prog, err := loadProgram(rc.repo,
		[]string{filepath.Join(rc.repo, "verif_contracts.go")},
		[]string{filepath.Join(rc.verif, "contracts", "extern.spec")})
	if err != nil {
		fmt.Printf("UNDECIDED property=%s load error: %v\n", rc.prop, err)
		return 2
	}
	loadS := time.Since(start).Seconds()
	for _, n := range prog.loadNotes {
		fmt.Printf("NOTE property=%s %s\n", rc.prop, n)
	}
	var names []string
	for _, n := range prog.spec.Order {
		fs := prog.spec.Funcs[n]
		if rc.funcOnly != "" {
			if n == rc.funcOnly {
				names = append(names, n)
			}
			continue
		}
		if rc.prop == "" || hasProp(fs.Props, rc.prop) || clauseHasProp(fs, rc.prop) {
			names = append(names, n)
		}
	}
	// The proof of a property rests on the contracts of everything its functions call: a caller is checked
	// against the callee's contract, so the callee's body has to satisfy that contract (all of it, whatever
	// property the clause was written for). The functions of the property are therefore closed under
	// "calls a function under contract" (through inlined, uncontracted helpers), and every obligation of
	// every function in the closure counts for the property.
	tagged := map[string]bool{}
	for _, n := range names {
		tagged[n] = true
	}
	viaCallee := map[string]bool{}
	if rc.funcOnly == "" && rc.prop != "" && os.Getenv("LIMEVC_NO_CLOSURE") == "" {
		for _, n := range calleeClosure(prog, names) {
			if !tagged[n] {
				viaCallee[n] = true
				names = append(names, n)
			}
		}
	}
	sort.Strings(names)
	var obls, covers []*Obligation
	var execs []*Exec
	undecided := 0
	for _, n := range names {
		fs := prog.spec.Funcs[n]
		fn := prog.funcs[n]
		if fn == nil && fs.Trusted && strings.Contains(n, "[") {
			if prog.funcs[n[:strings.Index(n, "[")]] != nil {
				continue // type-specific contract of a trusted function
			}
		}
		if fn == nil {
			fmt.Printf("UNDECIDED property=%s contract target %q does not exist in the package\n", rc.prop, n)
			obls = append(obls, contractObligation(n, fs, rc.prop, fmt.Sprintf("contract target %q does not exist in the package (renamed or removed): nothing the contract states about it can be established", n)))
			continue
		}
		if fs.Trusted {
			continue
		}
		x, err := verifyWithInference(prog, fn, fs, rc)
		if err != nil {
			fmt.Printf("UNDECIDED property=%s %v\n", rc.prop, err)
			obls = append(obls, contractObligation(n, fs, rc.prop, err.Error()))
			// what was generated before the contract error is still valid and is still reported
			execs = append(execs, x)
			for _, o := range x.obls {
				if rc.prop == "" || hasProp(o.Props, rc.prop) || viaCallee[n] || tagged[n] {
					obls = append(obls, o)
				}
			}
			continue
		}
		execs = append(execs, x)
		if os.Getenv("LIMEVC_NOTES") != "" {
			for _, nt := range x.notes {
				fmt.Printf("NOTE %s: %s\n", n, nt)
			}
		}
		for _, o := range x.obls {
			if rc.prop == "" || hasProp(o.Props, rc.prop) || viaCallee[n] || tagged[n] {
				obls = append(obls, o)
			}
		}
		covers = append(covers, x.covers...)
	}
	obls = append(obls, prog.census(rc.prop)...)
	for _, u := range prog.roleUnseen {
		if rc.funcOnly == "" {
			fmt.Printf("UNDECIDED property=%s %s\n", rc.prop, u)
			obls = append(obls, contractObligation("roleimpl", nil, rc.prop, u))
		}
	}
	smtDir := filepath.Join(rc.outDir, "smt", rc.prop)
	os.RemoveAll(smtDir)
	thorough := rc.tier == "thorough"
	solveAll(obls, smtDir, rc.timeout, rc.seed, thorough, rc.workers)
	solveAll(covers, filepath.Join(smtDir, "covers"), rc.timeout, rc.seed, false, rc.workers)
	var via []string
	for n := range viaCallee {
		via = append(via, n)
	}
	sort.Strings(via)
	rep := &Report{viaCallee: via, rc: rc, prog: prog, obls: obls, covers: covers, execs: execs, names: names, loadS: loadS, start: start, undecided: undecided}
	return rep.finish()
}

// contractObligation: the contract of a function under verification can no longer be established on
// this tree (it names something that is gone, the function is gone, or its body left the subset the
// engine handles). On the unchanged tree every contract binds and every body is in the subset, so this
// is an obligation that held and now fails; it is reported like any other undischarged obligation,
// without a failing input.
func contractObligation(fn string, fs *FuncSpec, prop, why string) *Obligation {
	props := []string{prop}
	if fs != nil && len(fs.Props) > 0 && prop == "" {
		props = fs.Props
	}
	o := &Obligation{Name: fn + "#contract#0", Func: fn, Kind: "contract", Props: props, Goal: "false",
		Desc: "the contract of " + fn + " binds to the code and its body can be verified against it"}
	if fs != nil {
		o.Pos = fmt.Sprintf("%s:%d", shortFile(fs.File), fs.Line)
	}
	o.Res = &SolveResult{Status: "unknown", Solver: "engine", Output: why}
	return o
}

// calleeClosure returns the functions under (non-trusted) contract that are reachable from roots through
// static calls, function literals, go and defer statements, looking through uncontracted in-package helpers
// (those are verified in place, as part of their callers).
func calleeClosure(prog *Program, roots []string) []string {
	seen := map[*ssa.Function]bool{}
	in := map[string]bool{}
	var out []string
	var visit func(f *ssa.Function)
	visit = func(f *ssa.Function) {
		if f == nil || seen[f] || f.Blocks == nil {
			return
		}
		seen[f] = true
		for _, b := range f.Blocks {
			for _, ins := range b.Instrs {
				for _, op := range ins.Operands(nil) {
					g, ok := (*op).(*ssa.Function)
					if !ok || g == nil {
						continue
					}
					if g.Pkg != prog.spkg && !(g.Pkg == nil && g.Parent() != nil) {
						if g.Synthetic == "" || g.Pkg != nil {
							continue
						}
					}
					name := prog.relName(g)
					if fs := prog.spec.Funcs[name]; fs != nil && prog.funcs[name] != nil {
						if !in[name] {
							in[name] = true
							if !fs.Trusted {
								out = append(out, name)
								visit(g)
							}
						}
						continue
					}
					visit(g) // literal, wrapper or uncontracted helper: part of its caller
				}
			}
		}
	}
	for _, n := range roots {
		in[n] = true
	}
	for _, n := range roots {
		if fs := prog.spec.Funcs[n]; fs != nil && fs.Trusted {
			continue // a trusted summary stands for its body
		}
		visit(prog.funcs[n])
	}
	return out
}

func clauseHasProp(fs *FuncSpec, p string) bool {
	for _, cs := range [][]*Clause{fs.Req, fs.Ens, fs.Checks} {
		for _, c := range cs {
			if hasProp(c.Props, p) {
				return true
			}
		}
	}
	for _, l := range fs.Loops {
		for _, c := range l.Invs {
			if hasProp(c.Props, p) {
				return true
			}
		}
	}
	return false
}

func indent(s, pre string) string {
	return pre + strings.ReplaceAll(s, "\n", "\n"+pre)
}
