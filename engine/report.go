package main

import (
	"bufio"
	"encoding/json"
	"fmt"
	"os"
	"path/filepath"
	"regexp"
	"sort"
	"strconv"
	"strings"
	"time"
)

type Report struct {
	rc        *runConfig
	prog      *Program
	obls      []*Obligation
	covers    []*Obligation
	execs     []*Exec
	names     []string
	loadS     float64
	start     time.Time
	undecided int
	viaCallee []string // functions included because a function of the property calls them (their whole contract is checked)
	bounded   []map[string]interface{}
	extraViol []string

	replaysTried int
	replayStart  time.Time
}

type knownFinding struct {
	kind  string // finding | fixed
	prop  string
	obl   string
	trace string
	text  string
	seen  bool
}

var ordRe = regexp.MustCompile(`#\d+$`)

func baseName(n string) string { return ordRe.ReplaceAllString(n, "") }

func loadKnown(path string) []*knownFinding {
	f, err := os.Open(path)
	if err != nil {
		return nil
	}
	defer f.Close()
	var out []*knownFinding
	sc := bufio.NewScanner(f)
	for sc.Scan() {
		line := strings.TrimSpace(sc.Text())
		if line == "" || strings.HasPrefix(line, "#") {
			continue
		}
		i := strings.Index(line, ":")
		if i < 0 {
			continue
		}
		k := &knownFinding{kind: strings.TrimSpace(line[:i]), text: strings.TrimSpace(line[i+1:])}
		for _, f := range strings.Fields(k.text) {
			switch {
			case strings.HasPrefix(f, "property="):
				k.prop = f[9:]
			case strings.HasPrefix(f, "obligation="):
				k.obl = f[11:]
			case strings.HasPrefix(f, "trace="):
				k.trace = f[6:]
			}
		}
		out = append(out, k)
	}
	return out
}

func (r *Report) finish() int {
	rc := r.rc
	known := loadKnown(filepath.Join(rc.verif, "known_findings.txt"))
	var failed []*Obligation
	discharged := 0
	backends := map[string]int{}
	solverS := 0.0
	for _, o := range r.obls {
		solverS += o.Res.Seconds
		if o.Res.Status == "unsat" {
			discharged++
			backends[o.Res.Solver]++
		} else {
			failed = append(failed, o)
		}
	}
	vacuous := 0
	coverSat := 0
	deadPaths := 0
	var deadCalls []string
	callReach := map[string]bool{}
	retSat := map[string]bool{}
	retAny := map[string]bool{}
	for _, c := range r.covers {
		solverS += c.Res.Seconds
		isEntry := strings.HasSuffix(c.Name, "#cover[entry]")
		if strings.Contains(c.Name, "#cover[call:") {
			k := baseName(c.Name)
			if _, ok := callReach[k]; !ok {
				callReach[k] = false
			}
			if c.Res.Status != "unsat" {
				callReach[k] = true
			}
			if c.Res.Status == "sat" {
				coverSat++
			}
			continue
		}
		if !isEntry {
			retAny[c.Func] = true
		}
		switch c.Res.Status {
		case "sat":
			coverSat++
			if !isEntry {
				retSat[c.Func] = true
			}
		case "unsat":
			if isEntry {
				vacuous++
				fmt.Printf("VACUOUS property=%s %s: %s is unsatisfiable\n", rc.prop, c.Name, c.Desc)
			} else {
				deadPaths++
			}
		default:
			if !isEntry {
				retSat[c.Func] = true // undecided cover: do not call it vacuous
			}
		}
	}
	for k, ok := range callReach {
		if !ok {
			deadCalls = append(deadCalls, k)
		}
	}
	sort.Strings(deadCalls)
	var deadFns []string
	for f := range retAny {
		if !retSat[f] {
			deadFns = append(deadFns, f)
		}
	}
	sort.Strings(deadFns)
	for _, f := range deadFns {
		// On the unchanged tree every function under contract can return. A function none of whose returns
		// is reachable satisfies its postconditions vacuously (it always panics or never leaves a loop):
		// that is reported as the failed obligation <func>#reach[return], not passed over.
		fmt.Printf("VACUOUS property=%s %s: no return path is reachable under the contract assumptions\n", rc.prop, f)
		o := &Obligation{Name: f + "#reach[return]#0", Func: f, Kind: "reach", Props: []string{rc.prop}, Goal: "false",
			Desc: "some return of " + f + " is reachable under its precondition (otherwise its postconditions hold vacuously)"}
		o.Res = &SolveResult{Status: "unknown", Solver: "engine", Output: "every return path of " + f + " is unreachable: all cover obligations are unsat"}
		r.obls = append(r.obls, o)
		failed = append(failed, o)
	}
	if rc.dump {
		for _, dc := range deadCalls {
			fmt.Printf("  dead-call %s\n", dc)
		}
		for _, o := range r.obls {
			fmt.Printf("  %-7s %-12s %6.2fs %s  (%s) %s\n", o.Res.Status, o.Res.Solver, o.Res.Seconds, o.Name, o.Pos, o.Desc)
		}
	}
	violations := 0
	knownHit := 0
	replayDir := filepath.Join(rc.outDir, "replay", rc.prop)
	os.MkdirAll(replayDir, 0o755)
	var violSamples []string
	for _, o := range failed {
		matched := false
		for _, k := range known {
			if k.kind == "finding" && k.prop == rc.prop && k.obl == baseName(o.Name) && (k.trace == "" || k.trace == o.Trace) {
				matched = true
				if !k.seen {
					k.seen = true
					fmt.Printf("KNOWN-FINDING: property=%s %s\n", rc.prop, k.text)
				}
			}
		}
		if matched {
			knownHit++
			continue
		}
		violations++
		path, reproduced := r.replay(o, replayDir)
		suffix := " replayed=end-to-end"
		if o.modular {
			// reproduced on the real body of the function with its contracted callees replaced by
			// stubs executing their contracts: the verifier's own (modular) counterexample
			suffix = " replayed=modular"
		}
		if !reproduced {
			suffix = " no-failing-input-found"
		}
		fmt.Printf("VIOLATION property=%s replay=%s obligation=%s status=%s%s\n", rc.prop, path, o.Name, o.Res.Status, suffix)
		violSamples = append(violSamples, o.Name)
	}
	// evidence
	var samples []map[string]interface{}
	for i, o := range r.obls {
		if i%maxInt(1, len(r.obls)/12) == 0 || o.Res.Status != "unsat" {
			samples = append(samples, map[string]interface{}{
				"obligation": o.Name, "kind": o.Kind, "at": o.Pos, "clause": o.Desc,
				"status": o.Res.Status, "backend": o.Res.Solver, "seconds": round3(o.Res.Seconds),
			})
		}
		if len(samples) > 40 {
			break
		}
	}
	used := map[string]bool{}
	notes := map[string]bool{}
	var fnames []string
	for _, x := range r.execs {
		fnames = append(fnames, x.fname)
		for k := range x.usedSpecs {
			used[k] = true
		}
		for _, n := range x.notes {
			notes[n] = true
		}
	}
	if rc.tier == "thorough" && rc.funcOnly == "" && !rc.noEvidence && rc.prop != "" {
		r.runThorough(used)
		for _, v := range r.extraViol {
			violations++
			fmt.Println(v)
		}
	}
	var trusted []string
	trusted = append(trusted, "limevc VC generator (this engine), go/ssa + go/types of golang.org/x/tools v0.29.0 as the semantics of Go", "SMT solvers z3 4.8.12, z3 5.1.0, cvc5 1.0")
	var assumptions []string
	for _, k := range sortedKeys(used) {
		fs := r.lookupSpec(k)
		if fs == nil {
			continue
		}
		if fs.Kind == "extern" || fs.Kind == "callback" || fs.Kind == "method" || fs.Trusted {
			var ens []string
			for _, c := range fs.Ens {
				ens = append(ens, c.Text)
			}
			kind := fs.Kind
			if fs.Trusted {
				kind = "trusted " + kind
			}
			s := fmt.Sprintf("assumed contract (%s) %s: ensures %s", kind, fs.Name, strings.Join(ens, " ; "))
			if fs.Kind == "method" {
				s = fmt.Sprintf("interface contract %s (assumed for implementations whose body is outside reach): ensures %s", fs.Name, strings.Join(ens, " ; "))
			}
			assumptions = append(assumptions, s)
			if fs.Kind == "extern" || fs.Trusted {
				trusted = append(trusted, kind+" "+fs.Name)
			}
		}
	}
	for _, n := range sortedKeys(notes) {
		assumptions = append(assumptions, n)
	}
	assumptions = append(assumptions,
		"integers are mathematical in the model; every +, -, * and narrowing integer conversion in the functions under contract carries a discharged no-overflow obligation (kind overflow); shifts, unary minus, MinInt / -1 and arithmetic inside library code are not covered",
		"termination is not proved (partial correctness)",
		"sequential reasoning per call: no interleavings; shared state only through declared monitors",
		"append allocates a fresh backing array (aliasing through spare capacity is not modelled; an append into a shortened view of a slice the function does not own is reported as a frame violation)",
		"Go strings are modelled as sequences of Unicode code points: byte strings that are not valid UTF-8 are outside the model (encoding/json replaces invalid bytes by U+FFFD)")
	sort.Strings(fnames)
	cov := map[string]interface{}{
		"obligations":              len(r.obls),
		"discharged":               discharged,
		"checker_cmd":              fmt.Sprintf("bin/limevc -repo %s -prop %s -tier %s -seed %d", rc.repo, rc.prop, rc.tier, rc.seed),
		"trusted_base":             trusted,
		"samples":                  samples,
		"functions_under_contract": fnames,
		"functions_via_callee_closure": r.viaCallee,
		"backends":                 backends,
		"solver_seconds":           round3(solverS),
		"load_seconds":             round3(r.loadS),
		"vacuity":                  map[string]interface{}{"covers": len(r.covers), "covers_sat": coverSat, "vacuous": vacuous, "unreachable_return_paths": deadPaths, "unreachable_call_sites": deadCalls},
		"known_findings_matched":   knownHit,
		"failed":                   violSamples,
		"bounded":                  r.bounded,
		"undecided":                r.undecided,
	}
	ev := map[string]interface{}{
		"property_id": rc.prop, "tier": rc.tier, "seed": rc.seed, "level": "proof",
		"coverage": cov, "assumptions": assumptions, "wall_s": round3(time.Since(r.start).Seconds()), "violations": violations,
	}
	if rc.prop != "" && rc.funcOnly == "" && !rc.noEvidence {
		os.MkdirAll(filepath.Join(rc.verif, "evidence"), 0o755)
		b, _ := json.MarshalIndent(ev, "", " ")
		os.WriteFile(filepath.Join(rc.verif, "evidence", rc.prop+".json"), append(b, '\n'), 0o644)
	}
	fmt.Printf("property=%s tier=%s functions=%d obligations=%d discharged=%d failed=%d known=%d covers=%d/%d vacuous=%d undecided=%d solver_s=%.1f wall_s=%.1f\n",
		rc.prop, rc.tier, len(r.execs), len(r.obls), discharged, len(failed), knownHit, coverSat, len(r.covers), vacuous, r.undecided, solverS, time.Since(r.start).Seconds())
	if violations > 0 {
		return 1
	}
	if r.undecided > 0 || vacuous > 0 || len(r.obls) == 0 {
		if len(r.obls) == 0 {
			fmt.Printf("VACUOUS property=%s no obligations were generated\n", rc.prop)
		}
		return 2
	}
	return 0
}

func (r *Report) lookupSpec(k string) *FuncSpec {
	i := strings.Index(k, " ")
	kind, name := k[:i], k[i+1:]
	sp := r.prog.spec
	switch kind {
	case "extern":
		return sp.Externs[name]
	case "method":
		return sp.Methods[name]
	case "callback":
		return sp.Roles[name]
	default:
		return sp.Funcs[name]
	}
}

func maxInt(a, b int) int {
	if a > b {
		return a
	}
	return b
}

func round3(f float64) float64 { return float64(int(f*1000+0.5)) / 1000 }

// replay writes the replay file for a failed obligation and, where a concrete
// input can be reconstructed, runs it against the real code.
func (r *Report) replay(o *Obligation, dir string) (string, bool) {
	path := filepath.Join(dir, fileBase(o.Name)+".txt")
	var b strings.Builder
	fmt.Fprintf(&b, "obligation: %s\nproperty: %s\nfunction: %s\nkind: %s\nat: %s\nclause: %s\npath: %s\nsolver: %s status=%s (%.2fs)\n",
		o.Name, r.rc.prop, o.Func, o.Kind, o.Pos, o.Desc, o.Trace, o.Res.Solver, o.Res.Status, o.Res.Seconds)
	if o.Res.Model != "" {
		fmt.Fprintf(&b, "model:\n%s\n", indent(o.Res.Model, "  "))
	} else {
		fmt.Fprintf(&b, "solver output:\n%s\n", indent(strings.TrimSpace(o.Res.Output), "  "))
	}
	reproduced := false
	if !r.rc.noReplay {
		// replay budget of one run: an edit that breaks many obligations at once (an uncontracted call
		// that havocs the heap fails every frame clause after it) would otherwise spend many minutes
		// on replays that add nothing to the verdict. Every failed obligation is still reported.
		maxN, maxS := 24, 300.0
		if v, err := strconv.Atoi(os.Getenv("LIMEVC_MAX_REPLAYS")); err == nil {
			maxN = v
		}
		if r.replayStart.IsZero() {
			r.replayStart = time.Now()
		}
		if r.replaysTried >= maxN || time.Since(r.replayStart).Seconds() > maxS {
			fmt.Fprintf(&b, "replay: not attempted (replay budget of this run used up: %d attempts, %.0f s); run the check with LIMEVC_MAX_REPLAYS=<n> for more\n", r.replaysTried, time.Since(r.replayStart).Seconds())
		} else {
			r.replaysTried++
			if gopath, ok := r.tryReplay(o, dir, &b); gopath != "" {
				reproduced = ok
			}
		}
	}
	os.WriteFile(path, []byte(b.String()), 0o644)
	return path, reproduced
}
