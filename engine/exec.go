package main

// Forward symbolic execution of one function's SSA body against callee
// contracts; emits proof obligations.

import (
	"regexp"
	"fmt"
	"go/ast"
	"go/constant"
	"go/printer"
	"go/token"
	"go/types"
	"io"
	"sort"
	"strings"

	"golang.org/x/tools/go/ssa"
)

func printerFprint(w io.Writer, x ast.Expr) error {
	return printer.Fprint(w, token.NewFileSet(), x)
}

type Obligation struct {
	Name    string
	Func    string
	Kind    string
	Detail  string
	Props   []string
	Asms    []Term
	Goal    Term
	Desc    string
	Pos     string
	Trace   string
	decls   *Decls
	GetVals []Term
	Res     *SolveResult
	Inputs  *ReplayInfo
	tpos    token.Pos
	modular bool      // the replay that reproduced it was the modular one (callees stubbed)
	snap    *snapshot // heap at the obligation (replay: ghost state, fakes)
	events  *evNode   // calls to modelled interfaces / callback roles on this path, newest first
	firstIter []Term  // equalities saying that the loops the path is inside of are in their first iteration
	leftLoops bool    // the path ran through a loop and left it (its effect is a havoc constrained by the invariant)
}

var localRefRe = regexp.MustCompile(`\blocal\.([A-Za-z_][A-Za-z0-9_]*)`)

type loopEq struct {
	li  *loopInfo
	eq  Term
	top bool
}

type loopInfo struct {
	head    *ssa.BasicBlock
	ordinal int
	body    map[*ssa.BasicBlock]bool
}

type Exec struct {
	prog      *Program
	fn        *ssa.Function
	fname     string
	spec      *FuncSpec
	d         *Decls
	obls      []*Obligation
	nameCount map[string]int
	initHeaps map[string]*heapNode
	typeCache map[string]types.Type
	recDepth  int
	inRec     int
	loops     map[*ssa.BasicBlock]*loopInfo
	paths     int
	entry     *snapshot // pre-state of the function under verification
	entryVars map[string]Val
	modAddrs  []Term // writable pre-existing leaf addresses (function frame)
	modAll    bool
	allocEntry Term
	implFacts map[string]bool
	debugRefs map[*ssa.Function][]*ssa.DebugRef
	covers    []*Obligation
	maxPaths  int
	notes     []string
	usedSpecs map[string]bool
	replay    *ReplayInfo
	curCall   *ssa.CallCommon
	oncallSeen map[string]bool
	chanElem  map[string]types.Type // element type per "lastsent:key" / "lastrecv:key"
	elemInfo   map[string]elemRef   // element address -> (backing array, index)
	appendInfo map[string]*appendRec // backing array allocated by append -> its sources
	inferred   map[string]*LoopSpec  // candidate invariants of loops in inlined helpers (houdini.go)
	skolems    map[*Clause]Term      // bound variable of each `forall` ensures clause of the function under verification
	curState   *State                // the state roleSite resolves inlined parameters in
	houdiniRetry bool                // a candidate could not be evaluated and was dropped: run again
}

type elemRef struct {
	arr, idx Term
	sl       [3]Term // the slice (arr, off, len) the element was read through
	rel      Term    // index relative to the slice
	hasSl    bool
}

type appendRec struct {
	s1, s2 [3]Term // (arr, off, len) of the two source slices
	snap   *snapshot
	elem   types.Type
}

func newExec(p *Program, fn *ssa.Function, fs *FuncSpec) *Exec {
	return &Exec{prog: p, fn: fn, fname: p.relName(fn), spec: fs, d: newDecls(), nameCount: map[string]int{},
		initHeaps: map[string]*heapNode{}, typeCache: map[string]types.Type{}, loops: map[*ssa.BasicBlock]*loopInfo{},
		implFacts: map[string]bool{}, elemInfo: map[string]elemRef{}, appendInfo: map[string]*appendRec{}, debugRefs: map[*ssa.Function][]*ssa.DebugRef{}, maxPaths: 6000, usedSpecs: map[string]bool{}}
}

func (x *Exec) globalAddr(o types.Object) Term {
	key := "global:" + o.Pkg().Path() + "." + o.Name()
	id := x.prog.objID(key)
	return fmt.Sprintf("(mkref %d pnil)", id)
}

func (x *Exec) funcRef(fn *ssa.Function) Term {
	id := x.prog.objID("func:" + fn.String())
	return fmt.Sprintf("(mkref %d pnil)", id)
}

func (x *Exec) propsFor(c *Clause) []string {
	if c != nil && len(c.Props) > 0 {
		return c.Props
	}
	return x.spec.Props
}

func (x *Exec) oblige(st *State, kind, detail string, goal Term, props []string, desc string, pos token.Pos) {
	base := fmt.Sprintf("%s#%s", x.fname, kind)
	if detail != "" {
		base += "[" + detail + "]"
	}
	n := x.nameCount[base]
	x.nameCount[base] = n + 1
	o := &Obligation{Name: fmt.Sprintf("%s#%d", base, n), Func: x.fname, Kind: kind, Detail: detail, Props: props,
		Asms: append([]Term(nil), st.asms...), Goal: goal, Desc: desc, Trace: st.traceStr(), decls: x.d}
	if pos.IsValid() {
		p := x.prog.prog.Fset.Position(pos)
		o.Pos = fmt.Sprintf("%s:%d", shortFile(p.Filename), p.Line)
		o.tpos = pos
	}
	o.snap = st.snap()
	o.events = st.events
	// only the loops the path is still inside of: a loop that was left ran its real iterations
	for _, le := range st.firstIter {
		if le.top && st.curBlock != nil && le.li.body[st.curBlock] {
			o.firstIter = append(o.firstIter, le.eq)
		} else {
			o.leftLoops = true
		}
	}
	o.Inputs = x.replay
	x.obls = append(x.obls, o)
}

func shortFile(f string) string {
	if i := strings.LastIndex(f, "/"); i >= 0 {
		return f[i+1:]
	}
	return f
}

// ---- function entry ---------------------------------------------------------

func (x *Exec) paramNames(fn *ssa.Function) []string {
	var out []string
	for _, p := range fn.Params {
		out = append(out, p.Name())
	}
	return out
}

func resultNames(sig *types.Signature, given []string) []string {
	res := sig.Results()
	if len(given) == res.Len() && len(given) > 0 {
		return given
	}
	out := make([]string, res.Len())
	for i := 0; i < res.Len(); i++ {
		n := res.At(i).Name()
		if n == "" || n == "_" {
			if res.Len() == 1 {
				n = "result"
			} else {
				n = fmt.Sprintf("result%d", i)
			}
		}
		out[i] = n
	}
	return out
}

func isErrorType(t types.Type) bool {
	n, ok := t.(*types.Named)
	return ok && n.Obj().Pkg() == nil && n.Obj().Name() == "error"
}

// bindResults adds result names (and the aliases result/err) to vars.
func bindResults(vars map[string]Val, sig *types.Signature, given []string, res Val) {
	tp := sig.Results()
	names := resultNames(sig, given)
	for i := 0; i < tp.Len(); i++ {
		lo, hi := tupleRange(tp, i)
		v := Val{T: tp.At(i).Type(), L: res.L[lo:hi]}
		vars[names[i]] = v
		if i == 0 {
			if _, ok := vars["result"]; !ok {
				vars["result"] = v
			}
		}
		if i == tp.Len()-1 && isErrorType(v.T) {
			if _, ok := vars["err"]; !ok {
				vars["err"] = v
			}
		}
	}
}

func (x *Exec) verify() (err error) {
	defer func() {
		if r := recover(); r != nil {
			switch e := r.(type) {
			case unsupportedErr:
				err = fmt.Errorf("unsupported construct in %s: %s", x.fname, e.msg)
			case specErr:
				err = e
			default:
				panic(r)
			}
		}
	}()
	fn := x.fn
	st := &State{x: x, heaps: map[string]*heapNode{}, instd: map[string]bool{}, closures: map[string]*closureInfo{},
		held: map[string]bool{}, heldW: map[string]bool{}, ghostInt: map[string]Term{}}
	x.d.Declare("alloc_0", "Int")
	st.alloc = "alloc_0"
	x.allocEntry = "alloc_0"
	st.assume(fmt.Sprintf("(>= alloc_0 %d)", 100000)) // room for globals / function objects
	fr := &Frame{fn: fn, regs: map[ssa.Value]Val{}}
	vars := map[string]Val{}
	x.replay = &ReplayInfo{Func: x.fname}
	for _, p := range fn.Params {
		v := st.freshVal("p_"+sanitize(p.Name()), p.Type())
		fr.regs[p] = v
		vars[p.Name()] = v
		x.replay.Params = append(x.replay.Params, ReplayParam{Name: p.Name(), Type: p.Type(), Val: v})
	}
	if len(x.spec.Params) > 0 {
		if len(x.spec.Params) != len(fn.Params) {
			return specErr{fmt.Sprintf("contract of %s pins %d parameter names, the function has %d parameters", x.fname, len(x.spec.Params), len(fn.Params))}
		}
		// the names the contract was written with, bound by position
		for i, p := range fn.Params {
			vars[x.spec.Params[i]] = fr.regs[p]
		}
	}
	// parameters do not point at package-level variables or function objects
	// (their ids are below 10000); stated as an input assumption
	for _, p := range fn.Params {
		for i, l := range leavesOf(p.Type()) {
			if l.Kind == LkRef || l.Kind == LkPayload || l.Kind == LkSlArr {
				if _, isFn := l.T.Underlying().(*types.Signature); isFn {
					continue
				}
				r := fr.regs[p].L[i]
				if l.Kind == LkPayload {
					st.assume(tOr(tIsNil(r), "(>= "+tRid(r)+" 10000)", tEq(tRid(r), strBoxRid)))
				} else {
					st.assume(tOr(tIsNil(r), "(>= "+tRid(r)+" 10000)"))
				}
			}
		}
	}
	for _, fv := range fn.FreeVars {
		v := st.freshVal("fv_"+sanitize(fv.Name()), fv.Type())
		fr.free = append(fr.free, v)
		// a free variable is a pointer to the captured variable; expose the variable itself by name
		vars["&"+fv.Name()] = v
		if _, ok := fv.Type().Underlying().(*types.Pointer); ok {
			// the cell of a captured variable always exists, and distinct variables have distinct cells
			st.assume(tNot(tIsNil(v.L[0])))
			for _, o := range fr.free[:len(fr.free)-1] {
				if len(o.L) == 1 && types.Identical(o.T, v.T) {
					st.assume(tNot(tEq(o.L[0], v.L[0])))
				}
			}
		}
	}
	st.frames = []*Frame{fr}
	x.entryVars = vars
	x.entry = st.snap()
	// expose captured variables by value (read at entry)
	for i, fv := range fn.FreeVars {
		if pt, ok := fv.Type().Underlying().(*types.Pointer); ok {
			vars[fv.Name()] = st.loadVal(fr.free[i].L[0], pt.Elem())
		}
	}
	env := &Env{x: x, st: st, old: x.entry, vars: vars, what: x.fname + " requires"}
	for _, c := range x.prog.spec.GlobalInvs {
		env.what = "globalinv"
		st.assume(env.evalBool(c.Expr))
	}
	for _, eg := range x.spec.EntryGhost {
		env.what = x.fname + " entry-ghost"
		p := env.evalPlace(eg[0].Expr)
		v := env.coerce(env.eval(eg[1].Expr), p.T)
		st.storeVal(p.addr, v)
	}
	x.entry = st.snap()
	env.old = x.entry
	for _, c := range x.spec.Req {
		env.what = fmt.Sprintf("%s requires (%s:%d)", x.fname, shortFile(c.File), c.Line)
		st.assume(env.evalBool(c.Expr))
	}
	x.entry = st.snap()
	// function frame
	if x.spec.ModAll || x.spec.Kind == "lemma" {
		x.modAll = true
	}
	for _, c := range x.spec.Mod {
		env.what = fmt.Sprintf("%s modifies (%s:%d)", x.fname, shortFile(c.File), c.Line)
		x.modAddrs = append(x.modAddrs, x.locLeaves(env, c.Expr)...)
	}
	// vacuity guard: the entry assumptions must be satisfiable
	cov := &Obligation{Name: x.fname + "#cover[entry]", Func: x.fname, Kind: "cover", Props: x.spec.Props,
		Asms: append([]Term(nil), st.asms...), Goal: "false", decls: x.d, Desc: "requires ∧ input well-formedness is satisfiable"}
	x.covers = append(x.covers, cov)
	fr.retK = nil
	x.analyzeLoops(fn)
	// clauses that name a local variable (chaninv-local, ghostinit, nsent(local.x), ...) check nothing once
	// the variable is renamed: refuse instead of silently counting zero sends
	var localNames = map[string]bool{}
	var collectLocals func(f *ssa.Function)
	collectLocals = func(f *ssa.Function) {
		for _, p := range f.Params {
			localNames[p.Name()] = true
		}
		for _, fv := range f.FreeVars {
			localNames[fv.Name()] = true
		}
		for _, b := range f.Blocks {
			for _, in := range b.Instrs {
				if dr, ok := in.(*ssa.DebugRef); ok {
					if id, ok := dr.Expr.(*ast.Ident); ok {
						localNames[id.Name] = true
					}
				}
			}
		}
		for _, af := range f.AnonFuncs {
			collectLocals(af)
		}
	}
	collectLocals(fn)
	var needed []string
	for n := range x.spec.GhostInit {
		needed = append(needed, n)
	}
	for n := range x.spec.LocalChanInv {
		needed = append(needed, n)
	}
	for _, cs := range [][]*Clause{x.spec.Req, x.spec.Ens, x.spec.Checks} {
		for _, c := range cs {
			for _, m := range localRefRe.FindAllStringSubmatch(c.Text, -1) {
				needed = append(needed, m[1])
			}
		}
	}
	for _, n := range needed {
		if strings.HasPrefix(n, "anychan.") {
			continue
		}
		if !localNames[n] {
			return specErr{fmt.Sprintf("contract of %s names the local variable %q, which does not exist (renamed?): the clause would check nothing", x.fname, n)}
		}
	}
	x.enterBlock(st, fn.Blocks[0], nil)
	// vacuity guard: an oncall clause whose label matches no call on any explored path checks nothing
	for label := range x.spec.OnCall {
		if !x.oncallSeen[label] {
			return specErr{fmt.Sprintf("contract of %s: oncall label %q matches no call site (misspelt, or the call was removed): the clause would check nothing", x.fname, label)}
		}
	}
	return nil
}

// locLeaves evaluates a modifies location to the addresses of its leaves.
func (x *Exec) locLeaves(env *Env, e ast.Expr) []Term {
	p := env.evalPlace(e)
	if !p.isAddr {
		env.fail("modifies location %s is not addressable", exprString(e))
	}
	var out []Term
	for _, l := range leavesOf(p.T) {
		out = append(out, l.Sort+"|"+extend(p.addr, l.Path))
	}
	return out
}

func (x *Exec) writable(addr Term, sort string) Term {
	if x.modAll || (x.spec.ModGhosts && isGhostAddr(addr)) {
		return "true"
	}
	alts := []Term{"(> " + tOrid(addr) + " " + x.allocEntry + ")"}
	for _, m := range x.modAddrs {
		i := strings.Index(m, "|")
		if m[:i] == sort {
			alts = append(alts, tEq(addr, m[i+1:]))
		}
	}
	return tOr(alts...)
}

// ---- loops -------------------------------------------------------------------

func (x *Exec) analyzeLoops(fn *ssa.Function) {
	if _, done := x.debugRefs[fn]; done {
		return
	}
	x.debugRefs[fn] = nil
	for _, b := range fn.Blocks {
		for _, in := range b.Instrs {
			if dr, ok := in.(*ssa.DebugRef); ok {
				x.debugRefs[fn] = append(x.debugRefs[fn], dr)
			}
		}
	}
	var heads []*ssa.BasicBlock
	back := map[*ssa.BasicBlock][]*ssa.BasicBlock{}
	for _, b := range fn.Blocks {
		for _, s := range b.Succs {
			if s.Dominates(b) {
				if len(back[s]) == 0 {
					heads = append(heads, s)
				}
				back[s] = append(back[s], b)
			}
		}
	}
	sort.Slice(heads, func(i, j int) bool { return heads[i].Index < heads[j].Index })
	for i, h := range heads {
		li := &loopInfo{head: h, ordinal: i, body: map[*ssa.BasicBlock]bool{h: true}}
		var stack []*ssa.BasicBlock
		for _, p := range back[h] {
			if !li.body[p] {
				li.body[p] = true
				stack = append(stack, p)
			}
		}
		for len(stack) > 0 {
			b := stack[len(stack)-1]
			stack = stack[:len(stack)-1]
			for _, p := range b.Preds {
				if !li.body[p] {
					li.body[p] = true
					stack = append(stack, p)
				}
			}
		}
		x.loops[h] = li
	}
}

// scopeVars builds the name environment visible in a contract clause evaluated
// inside function fn at the current point: parameters, captured variables and
// source-level locals (through debug references).
func (x *Exec) scopeVars(st *State, fr *Frame) map[string]Val {
	vars := map[string]Val{}
	localNames := map[string]bool{}
	if fr.fn == x.fn {
		for k, v := range x.entryVars {
			vars[k] = v
		}
	}
	for _, p := range fr.fn.Params {
		if v, ok := fr.regs[p]; ok {
			vars[p.Name()] = v
		}
	}
	for i, fv := range fr.fn.FreeVars {
		if i < len(fr.free) {
			if pt, ok := fv.Type().Underlying().(*types.Pointer); ok {
				vars[fv.Name()] = st.loadVal(fr.free[i].L[0], pt.Elem())
			} else {
				vars[fv.Name()] = fr.free[i]
			}
		}
	}
	for _, dr := range x.debugRefs[fr.fn] {
		id, ok := dr.Expr.(*ast.Ident)
		if !ok {
			continue
		}
		v, ok := fr.regs[dr.X]
		if !ok {
			if c, isC := dr.X.(*ssa.Const); isC {
				v = x.constVal(c)
			} else {
				continue
			}
		}
		if dr.IsAddr {
			pt, ok := v.T.Underlying().(*types.Pointer)
			if !ok {
				continue
			}
			vars[id.Name] = st.loadVal(v.L[0], pt.Elem())
		} else {
			vars[id.Name] = v
		}
		localNames[id.Name] = true
	}
	// local(T): the unique source-level local variable of type T in scope, whatever it is called
	byType := map[string][]string{}
	for n := range localNames {
		isParam := false
		for _, p := range fr.fn.Params {
			if p.Name() == n {
				isParam = true
			}
		}
		if isParam {
			continue
		}
		k := "local:" + typeKey(vars[n].T)
		byType[k] = append(byType[k], n)
	}
	for k, ns := range byType {
		if len(ns) == 1 {
			vars[k] = vars[ns[0]]
		}
	}
	return vars
}

func (x *Exec) loopSpec(fn *ssa.Function, li *loopInfo) *LoopSpec {
	fs := x.prog.spec.Funcs[x.prog.relName(fn)]
	if fs == nil || fs.Loops[li.ordinal] == nil {
		// a loop without a `loop N invariant` clause - inside an inlined, uncontracted helper, or one that an
		// edit added to the function under contract: everything the loop may write is forgotten at its
		// head except what the inferred (proved) candidates keep. Sound; weak; a loop that does not touch
		// what the contract talks about verifies, one that does fails the clause it breaks.
		return x.inferredLoopSpec(fn, li)
	}
	return fs.Loops[li.ordinal]
}

func (x *Exec) loopEnv(st *State, fr *Frame, li *loopInfo) *Env {
	vars := x.scopeVars(st, fr)
	for _, in := range li.head.Instrs {
		phi, ok := in.(*ssa.Phi)
		if !ok {
			break
		}
		v, ok := fr.regs[phi]
		if !ok {
			continue
		}
		if phi.Comment == "rangeindex" {
			vars["it_"] = intVal("(+ " + v.L[0] + " 1)")
			// rng_: the collection being ranged over (the slice indexed by phi+1 in the body)
			for b := range li.body {
				for _, bi := range b.Instrs {
					if ia, ok := bi.(*ssa.IndexAddr); ok {
						if bo, ok := ia.Index.(*ssa.BinOp); ok && bo.X == ssa.Value(phi) {
							if rv, ok := fr.regs[ia.X]; ok {
								vars["rng_"] = rv
							}
						}
					}
				}
			}
		} else if phi.Comment != "" {
			vars[phi.Comment] = v
		}
	}
	// carried(T): the unique loop-carried variable of type T, whatever its name
	cnt := map[string]int{}
	for _, in := range li.head.Instrs {
		phi, ok := in.(*ssa.Phi)
		if !ok {
			break
		}
		if v, ok := fr.regs[phi]; ok && phi.Comment != "rangeindex" {
			k := "carried:" + typeKey(phi.Type())
			cnt[k]++
			vars[k] = v
		}
	}
	for k, n := range cnt {
		if n != 1 {
			delete(vars, k)
		}
	}
	if _, ok := vars["it_"]; !ok {
		// an index loop `for i := 0; i < len(s); i++ { ... s[i] ... }` written instead of a range loop:
		// the counter plays the part of it_ and the slice it indexes that of rng_, so that contracts
		// survive a conversion between the two loop forms
		var cand *ssa.Phi
		var slice ssa.Value
		n := 0
		for _, in := range li.head.Instrs {
			phi, ok := in.(*ssa.Phi)
			if !ok {
				break
			}
			if b, ok := phi.Type().Underlying().(*types.Basic); !ok || b.Info()&types.IsInteger == 0 {
				continue
			}
			for b := range li.body {
				for _, bi := range b.Instrs {
					if ia, ok := bi.(*ssa.IndexAddr); ok && ia.Index == ssa.Value(phi) {
						if _, isSlice := ia.X.Type().Underlying().(*types.Slice); isSlice {
							if cand != phi {
								n++
							}
							cand, slice = phi, ia.X
						}
					}
				}
			}
		}
		if n == 1 {
			if v, ok := fr.regs[cand]; ok {
				vars["it_"] = v
				if rv, ok := fr.regs[slice]; ok {
					vars["rng_"] = rv
				}
			}
		}
	}
	return &Env{x: x, st: st, old: x.entry, vars: vars, loopSnap: st.loopSnaps[li.head], iterSnap: st.iterSnaps[li.head]}
}

// checkSteps: obligations about one complete iteration, at the back edge.
func (x *Exec) checkSteps(st *State, fr *Frame, li *loopInfo) {
	ls := x.loopSpec(fr.fn, li)
	if len(ls.Steps) == 0 {
		return
	}
	env := x.loopEnv(st, fr, li)
	// phis still hold the values of the iteration that just ran
	for k, c := range ls.Steps {
		env.what = fmt.Sprintf("%s loop %d step (%s:%d)", x.prog.relName(fr.fn), li.ordinal, shortFile(c.File), c.Line)
		parts := x.splitConj(c.Expr, 0)
		base := fmt.Sprint(k)
		if c.Label != "" {
			base = c.Label
		}
		for j, pe := range parts {
			d := base
			desc := c.Text
			if len(parts) > 1 {
				d = fmt.Sprintf("%s.%d", base, j)
				desc += "  [conjunct: " + exprString(pe) + "]"
			}
			x.oblige(st, "step"+fmt.Sprint(li.ordinal), d, env.evalBool(pe), x.propsFor(c), desc, token.NoPos)
		}
	}
}


// invGuard evaluates a declared loop invariant (or one conjunct of it). An invariant that cannot be
// bound at this loop any more - it names it_/rng_ and an edit turned the range loop into a loop the
// engine does not recognise as an indexed walk, or it names a local that is gone - is dropped with a
// note instead of failing the whole contract: the loop is then verified with the remaining
// invariants (fewer assumptions, so still sound) and the clauses that needed it fail by name.
func (x *Exec) invGuard(env *Env, c *Clause, pe ast.Expr) (g Term, ok bool) {
	defer func() {
		if r := recover(); r != nil {
			if se, isSpec := r.(specErr); isSpec && strings.Contains(se.msg, "unknown identifier") {
				note := fmt.Sprintf("loop invariant dropped (it cannot be bound at this loop any more): %s [%s]", c.Text, se.msg)
				dup := false
				for _, n := range x.notes {
					if n == note {
						dup = true
					}
				}
				if !dup {
					x.notes = append(x.notes, note)
				}
				g, ok = "", false
				return
			}
			panic(r)
		}
	}()
	return env.evalBool(pe), true
}

func (x *Exec) checkInvariants(st *State, fr *Frame, li *loopInfo, phase string) {
	ls := x.loopSpec(fr.fn, li)
	env := x.loopEnv(st, fr, li)
	for k, c := range ls.Invs {
		env.what = fmt.Sprintf("%s loop %d invariant (%s:%d)", x.prog.relName(fr.fn), li.ordinal, shortFile(c.File), c.Line)
		if ls.Soft {
			// a candidate (houdini.go): a failure drops the candidate instead of being reported
			if g, ok := x.tryEvalBool(env, c); ok {
				x.oblige(st, "softinv"+fmt.Sprint(li.ordinal)+"."+phase, c.Label, g, x.spec.Props, "inferred invariant candidate: "+c.Text, token.NoPos)
			}
			continue
		}
		if c.Bound != "" {
			// a quantified invariant: proved for its own arbitrary constant, which is among the values the
			// invariant was instantiated at when it was assumed at the loop head
			env.vars[c.Bound] = intVal(x.skolemFor(c))
			x.oblige(st, "inv"+fmt.Sprint(li.ordinal)+"."+phase, fmt.Sprint(k), env.evalBool(c.Expr), x.propsFor(c), c.Text, token.NoPos)
			delete(env.vars, c.Bound)
			continue
		}
		parts := x.splitConj(c.Expr, 0)
		for j, pe := range parts {
			d := fmt.Sprint(k)
			desc := c.Text
			if len(parts) > 1 {
				d = fmt.Sprintf("%d.%d", k, j)
				desc += "  [conjunct: " + exprString(pe) + "]"
			}
			if g, ok := x.invGuard(env, c, pe); ok {
				x.oblige(st, "inv"+fmt.Sprint(li.ordinal)+"."+phase, d, g, x.propsFor(c), desc, token.NoPos)
			}
		}
	}
}

// rootOf follows address computations back to the value they are derived from.
func rootOf(v ssa.Value) ssa.Value {
	for {
		switch a := v.(type) {
		case *ssa.FieldAddr:
			v = a.X
		case *ssa.IndexAddr:
			v = a.X
		case *ssa.Slice:
			v = a.X
		case *ssa.ChangeType:
			v = a.X
		default:
			return v
		}
	}
}

func (x *Exec) havocLoop(st *State, fr *Frame, li *loopInfo) {
	ls := x.loopSpec(fr.fn, li)
	// 1. loop-carried registers
	for _, in := range li.head.Instrs {
		phi, ok := in.(*ssa.Phi)
		if !ok {
			break
		}
		old, had := fr.regs[phi]
		nv := st.freshVal("phi_"+sanitize(phi.Comment), phi.Type())
		fr.regs[phi] = nv
		if had && len(old.L) == len(nv.L) {
			// replay: "the arbitrary iteration is the first one" (see replay.go)
			for i := range nv.L {
				st.firstIter = append(st.firstIter, loopEq{li: li, eq: tEq(nv.L[i], old.L[i]), top: len(st.frames) == 1})
			}
		}
	}
	// 2. memory
	var localRoots []Term
	nonlocal := false
	all := false
	noteRoot := func(v ssa.Value) {
		r := rootOf(v)
		in, isInstr := r.(ssa.Instruction)
		if isInstr && li.body[in.Block()] && in.Parent() == fr.fn {
			return // allocated inside the loop: fresh every iteration
		}
		switch r.(type) {
		case *ssa.Alloc, *ssa.MakeSlice, *ssa.MakeMap, *ssa.MakeChan:
			if rv, ok := fr.regs[r]; ok {
				localRoots = append(localRoots, tRid(rv.L[0]))
				return
			}
		}
		nonlocal = true
	}
	for b := range li.body {
		for _, in := range b.Instrs {
			switch in := in.(type) {
			case *ssa.Store:
				noteRoot(in.Addr)
			case *ssa.MapUpdate:
				noteRoot(in.Map)
			case ssa.CallInstruction:
				cs := x.calleeSpec(in.Common(), fr)
				switch {
				case cs == nil:
					if sf, ok := in.Common().Value.(*ssa.Function); ok && !in.Common().IsInvoke() && sf.Blocks != nil &&
						(sf.Pkg == x.prog.spkg || (sf.Pkg == nil && sf.Parent() != nil)) {
						// an uncontracted in-package helper is inlined at the call; whatever it writes is
						// checked against the function's own modifies clause there
						nonlocal = true
					} else if !x.isBenignBuiltin(in.Common()) {
						all = true
					}
				case cs.ModAll:
					all = true
				case len(cs.Mod) > 0 || cs.ModGhosts:
					nonlocal = true
				}
			case *ssa.Send:
				nonlocal = true
			}
		}
	}
	// function-local cells that the loop can only read (and whose address does
	// not escape except into deferred closures) keep their content
	var stable []Term
	for v, rv := range fr.regs {
		a, ok := v.(*ssa.Alloc)
		if !ok || a.Parent() != fr.fn || li.body[a.Block()] {
			continue
		}
		okUse := true
		for _, ref := range *a.Referrers() {
			switch r := ref.(type) {
			case *ssa.UnOp, *ssa.DebugRef:
			case *ssa.Store:
				if r.Addr != ssa.Value(a) || li.body[r.Block()] {
					okUse = false
				}
			case *ssa.MakeClosure:
				// a closure that only reads the captured variable cannot change the cell, however it is used
				readOnly := false
				if cf, ok := r.Fn.(*ssa.Function); ok {
					for bi, bv := range r.Bindings {
						if bv == ssa.Value(a) && bi < len(cf.FreeVars) {
							readOnly = true
							for _, fr2 := range *cf.FreeVars[bi].Referrers() {
								switch u := fr2.(type) {
								case *ssa.UnOp, *ssa.DebugRef:
								default:
									_ = u
									readOnly = false
								}
							}
						}
					}
				}
				if readOnly {
					break
				}
				for _, cr := range *r.Referrers() {
					if _, isDefer := cr.(*ssa.Defer); !isDefer {
						if _, isDbg := cr.(*ssa.DebugRef); !isDbg {
							okUse = false
						}
					}
				}
			default:
				okUse = false
			}
		}
		if okUse {
			stable = append(stable, tRid(rv.L[0]))
		}
	}
	sort.Strings(stable)
	allocHead := st.alloc
	var loopMods []Term
	if len(ls.Modifies) > 0 {
		env := x.loopEnv(st, fr, li)
		for _, c := range ls.Modifies {
			env.what = fmt.Sprintf("%s loop %d modifies", x.prog.relName(fr.fn), li.ordinal)
			loopMods = append(loopMods, x.locLeaves(env, c.Expr)...)
		}
	}
	entryMods := x.modAddrs
	allocEntry := x.allocEntry
	modAll := x.modAll
	modGhosts := x.spec.ModGhosts
	keepFor := func(hkey string) func(Term) Term {
		sort := keySort(hkey)
		if modGhosts && strings.HasPrefix(hkey, "g:") {
			return func(Term) Term { return "false" }
		}
		return func(a Term) Term {
			var stab []Term
			for _, r := range stable {
				stab = append(stab, tEq(tOrid(a), r))
			}
			if all {
				return tOr(stab...)
			}
			keepOld := func(c Term) Term { return tOr(append([]Term{c}, stab...)...) }
			_ = keepOld
			cs := []Term{"(<= " + tOrid(a) + " " + allocHead + ")"}
			for _, r := range localRoots {
				cs = append(cs, tNot(tEq(tOrid(a), r)))
			}
			if len(loopMods) > 0 {
				for _, m := range loopMods {
					i := strings.Index(m, "|")
					if m[:i] == sort {
						cs = append(cs, tNot(tEq(a, m[i+1:])))
					}
				}
			} else if nonlocal {
				if modAll {
					return tOr(stab...)
				}
				cs = append(cs, "(<= "+tOrid(a)+" "+allocEntry+")")
				for _, m := range entryMods {
					i := strings.Index(m, "|")
					if m[:i] == sort {
						cs = append(cs, tNot(tEq(a, m[i+1:])))
					}
				}
			}
			return tOr(append([]Term{tAnd(cs...)}, stab...)...)
		}
	}
	if all || nonlocal || len(localRoots) > 0 {
		for _, s := range []string{"Bool", "Int", "String", "Ref", "g:Bool", "g:Int", "g:String", "g:Ref"} {
			st.heapOf(st.heaps, s)
		}
		for s := range x.initHeaps {
			st.heapOf(st.heaps, s)
		}
		var sorts []string
		for s := range st.heaps {
			sorts = append(sorts, s)
		}
		sort.Strings(sorts)
		st.prepareAlloc()
		allocBefore := st.alloc
		for _, s := range sorts {
			before := st.heaps[s].name
			st.havocHeap(s, keepFor(s))
			st.firstIter = append(st.firstIter, loopEq{li: li, eq: tEq(st.heaps[s].name, before), top: len(st.frames) == 1})
		}
		st.bumpAlloc()
		st.firstIter = append(st.firstIter, loopEq{li: li, eq: tEq(st.alloc, allocBefore), top: len(st.frames) == 1})
	}
	// 3. assume the invariants
	env := x.loopEnv(st, fr, li)
	for _, c := range ls.Invs {
		env.what = fmt.Sprintf("%s loop %d invariant (%s:%d)", x.prog.relName(fr.fn), li.ordinal, shortFile(c.File), c.Line)
		if ls.Soft {
			if g, ok := x.tryEvalBool(env, c); ok {
				st.assume(g)
			}
			continue
		}
		if c.Bound != "" {
			for _, sk := range x.skolemTerms() {
				env.vars[c.Bound] = intVal(sk)
				st.assume(env.evalBool(c.Expr))
			}
			delete(env.vars, c.Bound)
			continue
		}
		if g, ok := x.invGuard(env, c, c.Expr); ok {
			st.assume(g)
		}
	}
}

// ---- blocks --------------------------------------------------------------------

func (x *Exec) enterBlock(st *State, b *ssa.BasicBlock, pred *ssa.BasicBlock) {
	x.curState = st
	fr := st.top()
	if len(st.frames) == 1 {
		st.curBlock = b
	}
	// phis
	if pred != nil {
		idx := -1
		for i, p := range b.Preds {
			if p == pred {
				idx = i
			}
		}
		var news []Val
		var phis []*ssa.Phi
		for _, in := range b.Instrs {
			phi, ok := in.(*ssa.Phi)
			if !ok {
				break
			}
			phis = append(phis, phi)
			news = append(news, x.coerceTo(x.value(st, phi.Edges[idx]), phi.Type()))
		}
		for i, phi := range phis {
			fr.regs[phi] = news[i]
		}
	}
	if li, ok := x.loops[b]; ok && b.Parent() == fr.fn {
		if pred != nil && b.Dominates(pred) {
			x.checkSteps(st, fr, li)
			x.checkInvariants(st, fr, li, "preserve")
			x.paths++
			return
		}
		if st.loopSnaps == nil {
			st.loopSnaps = map[*ssa.BasicBlock]*snapshot{}
		}
		st.loopSnaps[b] = st.snap()
		x.checkInvariants(st, fr, li, "establish")
		x.havocLoop(st, fr, li)
		// per-iteration ghost counters (sends per stream, monitor writes) start at zero
		for k := range st.ghostInt {
			if strings.HasPrefix(k, "sent:") || strings.HasPrefix(k, "recv:") || strings.HasPrefix(k, "writes:") || strings.HasPrefix(k, "rtrue:") || strings.HasPrefix(k, "rerr:") || strings.HasPrefix(k, "rcall:") || strings.HasPrefix(k, "go:") {
				st.ghostInt[k] = "0"
			}
		}
		if st.iterSnaps == nil {
			st.iterSnaps = map[*ssa.BasicBlock]*snapshot{}
		}
		st.iterSnaps[b] = st.snap()
	}
	x.runFrom(st, b, 0)
}

func (x *Exec) runFrom(st *State, b *ssa.BasicBlock, start int) {
	for i := start; i < len(b.Instrs); i++ {
		in := b.Instrs[i]
		if _, ok := in.(*ssa.Phi); ok {
			continue
		}
		cont := x.step(st, b, i, in)
		if !cont {
			return
		}
	}
}

func (x *Exec) endPath() {
	x.paths++
	if x.paths > x.maxPaths {
		panic(unsupported(fmt.Sprintf("path cap exceeded (%d)", x.maxPaths)))
	}
}

// ---- values ----------------------------------------------------------------------

func (x *Exec) constVal(c *ssa.Const) Val {
	t := c.Type()
	if c.Value == nil {
		return zeroVal(t)
	}
	if b, ok := t.Underlying().(*types.Basic); ok {
		switch {
		case b.Info()&types.IsBoolean != 0:
			if constant.BoolVal(c.Value) {
				return Val{T: t, L: []Term{"true"}}
			}
			return Val{T: t, L: []Term{"false"}}
		case b.Info()&types.IsString != 0:
			return Val{T: t, L: []Term{tStr(constant.StringVal(c.Value))}}
		case b.Info()&types.IsInteger != 0:
			n, ok := constant.Int64Val(constant.ToInt(c.Value))
			if !ok {
				u, _ := constant.Uint64Val(constant.ToInt(c.Value))
				return Val{T: t, L: []Term{fmt.Sprintf("%d", u)}}
			}
			return Val{T: t, L: []Term{tInt(n)}}
		case b.Info()&types.IsFloat != 0:
			f, _ := constant.Float64Val(c.Value)
			return Val{T: t, L: []Term{fmt.Sprintf("%f", f)}}
		}
	}
	panic(unsupported("constant of type " + t.String()))
}

func (x *Exec) value(st *State, v ssa.Value) Val {
	fr := st.top()
	switch v := v.(type) {
	case *ssa.Const:
		return x.constVal(v)
	case *ssa.Global:
		key := "global:" + v.Pkg.Pkg.Path() + "." + v.Name()
		id := x.prog.objID(key)
		return Val{T: v.Type(), L: []Term{fmt.Sprintf("(mkref %d pnil)", id)}}
	case *ssa.Function:
		return Val{T: v.Type(), L: []Term{x.funcRef(v)}}
	case *ssa.FreeVar:
		for i, fv := range fr.fn.FreeVars {
			if fv == v {
				return fr.free[i]
			}
		}
		panic("free variable not bound: " + v.Name())
	case *ssa.Builtin:
		panic(unsupported("builtin used as a value: " + v.Name()))
	}
	if r, ok := fr.regs[v]; ok {
		return r
	}
	panic(fmt.Sprintf("%s: value %s (%T) not computed", x.fname, v.Name(), v))
}

func (x *Exec) coerceTo(v Val, t types.Type) Val {
	if len(v.L) == len(leavesOf(t)) {
		return Val{T: t, L: v.L}
	}
	panic(fmt.Sprintf("coerce %s to %s: shape mismatch", v.T, t))
}

func (x *Exec) setReg(st *State, v ssa.Value, val Val) {
	st.top().regs[v] = Val{T: v.Type(), L: val.L}
}

func (x *Exec) nilCheck(st *State, ptr Val, what string, pos token.Pos) {
	rid := tRid(ptr.L[0])
	if strings.HasPrefix(rid, "alloc_") && rid != "alloc_0" {
		return // address of an object allocated on this path
	}
	if st.instd["nonnil|"+rid] {
		return
	}
	st.instd["nonnil|"+rid] = true
	x.oblige(st, "nilderef", what, tNot(tIsNil(ptr.L[0])), x.spec.Props, "pointer dereference of "+what, pos)
	st.assume(tNot(tIsNil(ptr.L[0])))
}

func describe(v ssa.Value) string {
	switch v := v.(type) {
	case *ssa.Parameter:
		return v.Name()
	case *ssa.FieldAddr:
		st := v.X.Type().Underlying().(*types.Pointer).Elem().Underlying().(*types.Struct)
		return describe(v.X) + "." + st.Field(v.Field).Name()
	case *ssa.UnOp:
		if v.Op == token.MUL {
			return "*" + describe(v.X)
		}
	case *ssa.Extract:
		return describe(v.Tuple) + "#" + fmt.Sprint(v.Index)
	case *ssa.Call:
		if f := v.Call.StaticCallee(); f != nil {
			return f.Name() + "()"
		}
		if v.Call.IsInvoke() {
			return v.Call.Method.Name() + "()"
		}
	case *ssa.Phi:
		if v.Comment != "" {
			return v.Comment
		}
	case *ssa.FreeVar:
		return v.Name()
	case *ssa.Alloc:
		if v.Comment != "" {
			return v.Comment
		}
	case *ssa.IndexAddr:
		return describe(v.X) + "[]"
	case *ssa.Global:
		return v.Name()
	case *ssa.TypeAssert:
		return describe(v.X) + ".(" + types.TypeString(v.AssertedType, func(*types.Package) string { return "" }) + ")"
	}
	return "tmp"
}

// ---- instructions -------------------------------------------------------------------

func (x *Exec) step(st *State, b *ssa.BasicBlock, idx int, in ssa.Instruction) bool {
	x.curState = st
	switch in := in.(type) {
	case *ssa.DebugRef:
		return true
	case *ssa.Alloc:
		obj := st.newObject()
		elem := in.Type().Underlying().(*types.Pointer).Elem()
		x.d.DeclareFun("roottype", []string{"Int"}, "Int")
		if id, ok := x.prog.typeIDs[typeKey(elem)]; ok && id <= len(x.prog.pkgTypes) {
			st.assume(fmt.Sprintf("(= (roottype %s) %d)", tRid(obj), id))
		} else {
			st.assume(fmt.Sprintf("(> (roottype %s) %d)", tRid(obj), len(x.prog.pkgTypes)))
		}
		st.storeVal(obj, zeroVal(elem))
		x.zeroGhosts(st, obj, elem, 0)
		x.setReg(st, in, Val{T: in.Type(), L: []Term{obj}})
	case *ssa.FieldAddr:
		p := x.value(st, in.X)
		x.nilCheck(st, p, describe(in.X), in.Pos())
		x.setReg(st, in, Val{T: in.Type(), L: []Term{extend(p.L[0], []int{in.Field})}})
	case *ssa.Field:
		s := x.value(st, in.X)
		stt := in.X.Type().Underlying().(*types.Struct)
		lo, hi := fieldRange(stt, in.Field)
		x.setReg(st, in, Val{T: in.Type(), L: s.L[lo:hi]})
	case *ssa.IndexAddr:
		base := x.value(st, in.X)
		i := x.value(st, in.Index)
		switch bt := in.X.Type().Underlying().(type) {
		case *types.Slice:
			x.oblige(st, "index", describe(in.X), tAnd("(<= 0 "+i.L[0]+")", "(< "+i.L[0]+" "+base.L[2]+")"), x.spec.Props, "index in range", in.Pos())
			st.assume(tAnd("(<= 0 "+i.L[0]+")", "(< "+i.L[0]+" "+base.L[2]+")"))
			ea := extendIdx(base.L[0], tAddInt(base.L[1], i.L[0]))
			x.elemInfo[ea] = elemRef{arr: base.L[0], idx: tAddInt(base.L[1], i.L[0]), sl: [3]Term{base.L[0], base.L[1], base.L[2]}, rel: i.L[0], hasSl: true}
			x.setReg(st, in, Val{T: in.Type(), L: []Term{ea}})
		case *types.Pointer:
			arr := bt.Elem().Underlying().(*types.Array)
			x.nilCheck(st, base, describe(in.X), in.Pos())
			x.oblige(st, "index", describe(in.X), tAnd("(<= 0 "+i.L[0]+")", fmt.Sprintf("(< %s %d)", i.L[0], arr.Len())), x.spec.Props, "index in range", in.Pos())
			x.setReg(st, in, Val{T: in.Type(), L: []Term{extendIdx(base.L[0], i.L[0])}})
		default:
			panic(unsupported("IndexAddr on " + in.X.Type().String()))
		}
	case *ssa.UnOp:
		return x.unop(st, in)
	case *ssa.BinOp:
		a, c := x.value(st, in.X), x.value(st, in.Y)
		if (in.Op == token.QUO || in.Op == token.REM) && len(c.L) == 1 && leavesOf(c.T)[0].Sort == "Int" {
			x.oblige(st, "divzero", describe(in.Y), tNot(tEq(c.L[0], "0")), x.spec.Props, "division by zero", in.Pos())
		}
		res := x.binop(in.Op, a, c, in.Type())
		x.overflowCheck(st, in, res)
		x.setReg(st, in, res)
	case *ssa.Store:
		p := x.value(st, in.Addr)
		v := x.value(st, in.Val)
		x.nilCheck(st, p, describe(in.Addr), in.Pos())
		x.storeChecked(st, p.L[0], x.coerceTo(v, in.Addr.Type().Underlying().(*types.Pointer).Elem()), describe(in.Addr), in.Pos())
	case *ssa.MakeInterface:
		v := x.value(st, in.X)
		x.setReg(st, in, x.makeInterface(st, v, in.X.Type(), in.Type()))
	case *ssa.ChangeInterface:
		v := x.value(st, in.X)
		x.setReg(st, in, Val{T: in.Type(), L: v.L})
	case *ssa.ChangeType:
		v := x.value(st, in.X)
		x.setReg(st, in, x.coerceTo(v, in.Type()))
	case *ssa.Convert:
		cv := x.convert(st, x.value(st, in.X), in.X.Type(), in.Type())
		x.convRangeCheck(st, in, cv)
		x.setReg(st, in, cv)
	case *ssa.Extract:
		t := x.value(st, in.Tuple)
		lo, hi := tupleRange(in.Tuple.Type().(*types.Tuple), in.Index)
		x.setReg(st, in, Val{T: in.Type(), L: t.L[lo:hi]})
	case *ssa.Slice:
		x.sliceOp(st, in)
	case *ssa.MakeSlice:
		n := x.value(st, in.Len)
		x.oblige(st, "makeslice", "len", "(>= "+n.L[0]+" 0)", x.spec.Props, "non-negative length", in.Pos())
		obj := st.newObject()
		x.setReg(st, in, Val{T: in.Type(), L: []Term{obj, "0", n.L[0]}})
	case *ssa.MakeMap:
		obj := st.newObject()
		mt := in.Type().Underlying().(*types.Map)
		func() {
			defer func() {
				if r := recover(); r != nil {
					if _, ok := r.(unsupportedErr); !ok {
						panic(r)
					}
					// a map whose values have several leaves (map[string]interface{}): only its identity is
					// modelled; reading or writing its contents stays unsupported
					x.notes = append(x.notes, "map with multi-leaf values allocated: contents not modelled")
				}
			}()
			dom, val, _, hasVal := mapSorts(mt)
			st.storeLeaf(dom, extend(obj, []int{0}), zeroOfSort(dom))
			if hasVal {
				st.storeLeaf(val, extend(obj, []int{1}), zeroOfSort(val))
			}
		}()
		x.setReg(st, in, Val{T: in.Type(), L: []Term{obj}})
	case *ssa.MakeChan:
		obj := st.newObject()
		st.storeLeaf("Bool", extendGhost(obj, 0), "false") // closed flag (ghost index 0 is reserved for it)
		st.storeLeaf("Int", extendGhost(obj, 1), x.value(st, in.Size).L[0]) // capacity (ghost index 1): chancap(ch)
		x.d.DeclareFun("roottype", []string{"Int"}, "Int")
		if ct, ok := in.Type().Underlying().(*types.Chan); ok {
			st.assume(fmt.Sprintf("(= (roottype %s) %d)", tRid(obj), 100000+x.prog.typeID(types.NewChan(types.SendRecv, ct.Elem()))))
		}
		x.setReg(st, in, Val{T: in.Type(), L: []Term{obj}})
		x.ghostInit(st, in)
	case *ssa.MakeClosure:
		obj := st.newObject()
		ci := &closureInfo{fn: in.Fn.(*ssa.Function)}
		for _, bnd := range in.Bindings {
			ci.bindings = append(ci.bindings, x.value(st, bnd))
		}
		st.closures[obj] = ci
		x.setReg(st, in, Val{T: in.Type(), L: []Term{obj}})
		x.onRef(st, ci.fn, in.Pos())
	case *ssa.MapUpdate:
		m := x.value(st, in.Map)
		k := x.value(st, in.Key)
		v := x.value(st, in.Value)
		x.oblige(st, "nilmap", describe(in.Map), tNot(tIsNil(m.L[0])), x.spec.Props, "assignment to entry in nil map", in.Pos())
		st.assume(tNot(tIsNil(m.L[0])))
		x.monitorAccess(st, in.Map, true, &k, &v, "true", in.Pos())
		x.mapUpdate(st, m, k, v, describe(in.Map), in.Pos())
	case *ssa.Index:
		// s[i] of a string: the code of its i-th character (strings are sequences of code points in the
		// model); indexing a string outside its length panics
		if bt, ok := in.X.Type().Underlying().(*types.Basic); ok && bt.Info()&types.IsString != 0 {
			sv := x.value(st, in.X).L[0]
			i := x.value(st, in.Index)
			g := tAnd("(<= 0 "+i.L[0]+")", "(< "+i.L[0]+" (str.len "+sv+"))")
			x.oblige(st, "index", describe(in.X), g, x.spec.Props, "string index in range", in.Pos())
			st.assume(g)
			x.setReg(st, in, Val{T: in.Type(), L: []Term{"(str.to_code (str.at " + sv + " " + i.L[0] + "))"}})
		} else {
			panic(unsupported("instruction *ssa.Index on an array value"))
		}
	case *ssa.Lookup:
		x.lookup(st, in)
	case *ssa.TypeAssert:
		x.typeAssert(st, in)
	case *ssa.Call:
		return x.call(st, b, idx, in)
	case *ssa.Defer:
		fr := st.top()
		d := deferred{call: in.Common()}
		for _, a := range in.Call.Args {
			d.args = append(d.args, x.value(st, a))
		}
		if !in.Call.IsInvoke() {
			if _, isFn := in.Call.Value.(*ssa.Function); !isFn {
				if _, isB := in.Call.Value.(*ssa.Builtin); !isB {
					d.fnv = x.value(st, in.Call.Value)
				}
			}
		} else {
			d.fnv = x.value(st, in.Call.Value)
		}
		fr.defers = append(fr.defers, d)
	case *ssa.RunDefers:
		x.runDefers(st, func(st *State) { x.runFrom(st, b, idx+1) })
		return false
	case *ssa.Go:
		x.goStmt(st, in)
	case *ssa.Send:
		x.send(st, in)
	case *ssa.Select:
		return x.selectStmt(st, b, idx, in)
	case *ssa.Jump:
		x.enterBlock(st, b.Succs[0], b)
		return false
	case *ssa.If:
		c := x.value(st, in.Cond).L[0]
		if c == "true" {
			x.enterBlock(st, b.Succs[0], b)
			return false
		}
		if c == "false" {
			x.enterBlock(st, b.Succs[1], b)
			return false
		}
		s2 := st.fork()
		st.assume(c)
		st.trace = append(st.trace, fmt.Sprintf("b%d:T", b.Index))
		x.enterBlock(st, b.Succs[0], b)
		s2.assume(tNot(c))
		s2.trace = append(s2.trace, fmt.Sprintf("b%d:F", b.Index))
		x.enterBlock(s2, b.Succs[1], b)
		return false
	case *ssa.Return:
		var res Val
		sig := st.top().fn.Signature
		res.T = sig.Results()
		for i, r := range in.Results {
			res.L = append(res.L, x.coerceTo(x.value(st, r), sig.Results().At(i).Type()).L...)
		}
		x.doReturn(st, res, in.Pos())
		return false
	case *ssa.Panic:
		x.panicInstr(st, in)
		return false
	case *ssa.Range:
		// iteration over a map or a string: the iterator is opaque
		x.setReg(st, in, Val{T: in.Type(), L: nil})
		x.notes = append(x.notes, "range over a map/string: iteration order and the set of visited keys are not modelled (every Next yields an arbitrary key/value or ends)")
		return true
	case *ssa.Next:
		// (ok, key, value): over-approximated by arbitrary values
		tp := in.Type().(*types.Tuple)
		out := Val{T: tp}
		for i := 0; i < tp.Len(); i++ {
			t := tp.At(i).Type()
			if b, ok := t.(*types.Basic); ok && b.Kind() == types.Invalid {
				continue // unused component
			}
			out.L = append(out.L, st.freshVal("next", t).L...)
		}
		x.setReg(st, in, out)
		return true
	default:
		panic(unsupported(fmt.Sprintf("instruction %T", in)))
	}
	return true
}

func tAddInt(a, b Term) Term {
	if a == "0" {
		return b
	}
	if b == "0" {
		return a
	}
	return "(+ " + a + " " + b + ")"
}

func (x *Exec) storeChecked(st *State, addr Term, v Val, what string, pos token.Pos) {
	ls := leavesOf(v.T)
	if len(ls) > 0 {
		var gs []Term
		seen := map[string]bool{}
		for _, l := range ls {
			g := x.writable(extend(addr, l.Path), l.Sort)
			if !seen[g] {
				seen[g] = true
				gs = append(gs, g)
			}
		}
		x.oblige(st, "frame", what, tAnd(gs...), x.spec.Props, "store to "+what+" is allowed by the modifies clause", pos)
	}
	x.lockCheck(st, addr, v.T, what, pos, true)
	st.storeVal(addr, v)
}

func (x *Exec) unop(st *State, in *ssa.UnOp) bool {
	v := x.value(st, in.X)
	switch in.Op {
	case token.MUL:
		x.nilCheck(st, v, describe(in.X), in.Pos())
		elem := in.X.Type().Underlying().(*types.Pointer).Elem()
		x.lockCheck(st, v.L[0], elem, describe(in.X), in.Pos(), false)
		x.setReg(st, in, x.loadShared(st, v.L[0], elem, in.X))
	case token.NOT:
		x.setReg(st, in, Val{T: in.Type(), L: []Term{tNot(v.L[0])}})
	case token.SUB:
		x.setReg(st, in, Val{T: in.Type(), L: []Term{"(- " + v.L[0] + ")"}})
	case token.ARROW:
		x.recv(st, in, v)
	default:
		panic(unsupported("unary operator " + in.Op.String()))
	}
	return true
}

func (x *Exec) binop(op token.Token, a, b Val, rt types.Type) Val {
	switch op {
	case token.EQL, token.NEQ:
		var eq Term
		if _, ok := a.T.Underlying().(*types.Slice); ok {
			eq = tEq(a.L[0], b.L[0])
		} else {
			eq = valEq(a, Val{T: a.T, L: b.L})
		}
		if op == token.NEQ {
			eq = tNot(eq)
		}
		return Val{T: rt, L: []Term{eq}}
	}
	if len(a.L) != 1 {
		panic(unsupported("binary operator on composite value"))
	}
	l, r := a.L[0], b.L[0]
	isStr := leavesOf(a.T)[0].Sort == "String"
	var t Term
	switch op {
	case token.ADD:
		if isStr {
			t = "(str.++ " + l + " " + r + ")"
		} else {
			t = "(+ " + l + " " + r + ")"
		}
	case token.SUB:
		t = "(- " + l + " " + r + ")"
	case token.MUL:
		t = "(* " + l + " " + r + ")"
	case token.QUO:
		// Go truncates toward zero; SMT div floors: correct for the sign
		t = "(ite (>= " + l + " 0) (div " + l + " " + r + ") (- (div (- " + l + ") " + r + ")))"
	case token.REM:
		t = "(- " + l + " (* " + r + " (ite (>= " + l + " 0) (div " + l + " " + r + ") (- (div (- " + l + ") " + r + ")))))"
	case token.LSS:
		if isStr {
			t = "(str.< " + l + " " + r + ")"
		} else {
			t = "(< " + l + " " + r + ")"
		}
	case token.LEQ:
		if isStr {
			t = "(str.<= " + l + " " + r + ")"
		} else {
			t = "(<= " + l + " " + r + ")"
		}
	case token.GTR:
		if isStr {
			t = "(str.< " + r + " " + l + ")"
		} else {
			t = "(> " + l + " " + r + ")"
		}
	case token.GEQ:
		if isStr {
			t = "(str.<= " + r + " " + l + ")"
		} else {
			t = "(>= " + l + " " + r + ")"
		}
	case token.LAND, token.AND:
		if leavesOf(a.T)[0].Sort == "Bool" {
			t = tAnd(l, r)
		}
	case token.LOR, token.OR:
		if leavesOf(a.T)[0].Sort == "Bool" {
			t = tOr(l, r)
		}
	}
	if t == "" {
		panic(unsupported("binary operator " + op.String() + " on " + a.T.String()))
	}
	return Val{T: rt, L: []Term{t}}
}

func (x *Exec) makeInterface(st *State, v Val, from types.Type, to types.Type) Val {
	tag := tInt(int64(x.prog.typeID(from)))
	if isPointerLike(from) {
		return Val{T: to, L: []Term{tag, v.L[0]}}
	}
	if isStringKinded(from) {
		return Val{T: to, L: []Term{tag, boxString(v.L[0])}}
	}
	// box the value
	box := st.newObject()
	st.storeVal(box, Val{T: from, L: v.L})
	return Val{T: to, L: []Term{tag, box}}
}

func (x *Exec) convert(st *State, v Val, from, to types.Type) Val {
	fl, tl := leavesOf(from), leavesOf(to)
	_, fromSlice := from.Underlying().(*types.Slice)
	_, toSlice := to.Underlying().(*types.Slice)
	switch {
	case fromSlice && len(tl) == 1 && tl[0].Sort == "String":
		x.d.DeclareFun("strOf", []string{"Ref", "Int", "Int"}, "String")
		s := "(strOf " + v.L[0] + " " + v.L[1] + " " + v.L[2] + ")"
		st.assume(tEq("(str.len "+s+")", v.L[2]))
		return Val{T: to, L: []Term{s}}
	case toSlice && len(fl) == 1 && fl[0].Sort == "String":
		x.d.DeclareFun("strOf", []string{"Ref", "Int", "Int"}, "String")
		obj := st.newObject()
		n := "(str.len " + v.L[0] + ")"
		st.assume(tEq("(strOf "+obj+" 0 "+n+")", v.L[0]))
		return Val{T: to, L: []Term{obj, "0", n}}
	case len(fl) == len(tl):
		same := true
		for i := range fl {
			if fl[i].Sort != tl[i].Sort {
				same = false
			}
		}
		if same {
			return Val{T: to, L: v.L}
		}
		if len(fl) == 1 && (fl[0].Sort == "Real" || tl[0].Sort == "Real") {
			// numeric conversion involving floating point: the value is not tracked
			x.notes = append(x.notes, "floating point conversion: result unconstrained")
			return st.freshVal("fconv", to)
		}
	}
	panic(unsupported(fmt.Sprintf("conversion %s -> %s", from, to)))
}

func (x *Exec) sliceOp(st *State, in *ssa.Slice) {
	base := x.value(st, in.X)
	var arr, off, ln Term
	switch bt := in.X.Type().Underlying().(type) {
	case *types.Slice:
		arr, off, ln = base.L[0], base.L[1], base.L[2]
	case *types.Pointer:
		a := bt.Elem().Underlying().(*types.Array)
		x.nilCheck(st, base, describe(in.X), in.Pos())
		arr, off, ln = base.L[0], "0", fmt.Sprint(a.Len())
	case *types.Basic:
		// s[lo:hi] of a string (bytes of the string are its characters in the model: see the
		// assumption "strings are sequences of code points")
		sv := base.L[0]
		slen := "(str.len " + sv + ")"
		slo, shi := Term("0"), Term(slen)
		if in.Low != nil {
			slo = x.value(st, in.Low).L[0]
		}
		if in.High != nil {
			shi = x.value(st, in.High).L[0]
		}
		g := tAnd("(<= 0 "+slo+")", "(<= "+slo+" "+shi+")", "(<= "+shi+" "+slen+")")
		x.oblige(st, "slicebounds", describe(in.X), g, x.spec.Props, "string slice bounds in range", in.Pos())
		st.assume(g)
		x.setReg(st, in, Val{T: in.Type(), L: []Term{"(str.substr " + sv + " " + slo + " (- " + shi + " " + slo + "))"}})
		return
	}
	lo, hi := Term("0"), ln
	if in.Low != nil {
		lo = x.value(st, in.Low).L[0]
	}
	if in.High != nil {
		hi = x.value(st, in.High).L[0]
	}
	if in.Low != nil || in.High != nil {
		g := tAnd("(<= 0 "+lo+")", "(<= "+lo+" "+hi+")", "(<= "+hi+" "+ln+")")
		x.oblige(st, "slicebounds", describe(in.X), g, x.spec.Props, "slice bounds in range (capacity taken as length)", in.Pos())
		st.assume(g)
	}
	x.setReg(st, in, Val{T: in.Type(), L: []Term{arr, tAddInt(off, lo), "(- " + hi + " " + lo + ")"}})
}

// ---- maps -----------------------------------------------------------------------------

func (st *State) mapLookupIn(sn *snapshot, m Val, k Val) (Term, Val) {
	mt := m.T.Underlying().(*types.Map)
	dom, val, _, hasVal := mapSorts(mt)
	d := st.loadIn(sn, dom, extend(m.L[0], []int{0}))
	ok := tAnd(tNot(tIsNil(m.L[0])), selectN(d, k.L))
	out := zeroVal(mt.Elem())
	if hasVal {
		va := st.loadIn(sn, val, extend(m.L[0], []int{1}))
		sel := selectN(va, k.L)
		out = Val{T: mt.Elem(), L: []Term{tIte(ok, sel, zeroOfSort(leavesOf(mt.Elem())[0].Sort))}}
	}
	return ok, out
}

func (x *Exec) mapUpdate(st *State, m, k, v Val, what string, pos token.Pos) {
	mt := m.T.Underlying().(*types.Map)
	dom, val, _, hasVal := mapSorts(mt)
	da := extend(m.L[0], []int{0})
	x.oblige(st, "frame", what, x.writable(da, dom), x.spec.Props, "map update allowed by the modifies clause", pos)
	x.lockCheck(st, m.L[0], mt, what, pos, true)
	d := st.loadIn(nil, dom, da)
	st.storeLeaf(dom, da, storeN(d, k.L, "true"))
	if hasVal {
		va := extend(m.L[0], []int{1})
		cur := st.loadIn(nil, val, va)
		st.storeLeaf(val, va, storeN(cur, k.L, v.L[0]))
	}
}

func (x *Exec) mapDelete(st *State, m, k Val, what string, pos token.Pos) {
	mt := m.T.Underlying().(*types.Map)
	dom, _, _, _ := mapSorts(mt)
	da := extend(m.L[0], []int{0})
	x.oblige(st, "frame", what, tOr(tIsNil(m.L[0]), x.writable(da, dom)), x.spec.Props, "map delete allowed by the modifies clause", pos)
	x.lockCheck(st, m.L[0], mt, what, pos, true)
	d := st.loadIn(nil, dom, da)
	st.storeLeaf(dom, da, storeN(d, k.L, "false"))
}

func (x *Exec) lookup(st *State, in *ssa.Lookup) {
	m := x.value(st, in.X)
	mt, ok := in.X.Type().Underlying().(*types.Map)
	if !ok {
		panic(unsupported("string indexing"))
	}
	k := x.value(st, in.Index)
	x.lockCheck(st, m.L[0], mt, describe(in.X), in.Pos(), false)
	okT, v := st.mapLookupIn(nil, m, k)
	st.assumeWF(v)
	x.monitorAccess(st, in.X, false, &k, &v, okT, in.Pos())
	if u, ok := in.X.(*ssa.UnOp); ok {
		if g, ok := u.X.(*ssa.Global); ok {
			if inv := x.prog.spec.MapInvs[g.Name()]; inv != nil {
				env := &Env{x: x, st: st, old: x.entry, vars: map[string]Val{"v": v, "k": k}, what: "mapinv " + g.Name()}
				st.assume(tImp(okT, env.evalBool(inv.Expr)))
				x.usedSpecs["mapinv "+g.Name()] = true
			}
		}
	}
	if in.CommaOk {
		x.setReg(st, in, Val{T: in.Type(), L: append(append([]Term(nil), v.L...), okT)})
	} else {
		x.setReg(st, in, v)
	}
}

// ---- type assertions ----------------------------------------------------------------------

func (x *Exec) implements(st *State, tag Term, it types.Type) Term {
	name := "impl_" + sanitize(typeKey(it))
	x.d.DeclareFun(name, []string{"Int"}, "Bool")
	if !st.instd["impl|"+name] {
		st.instd["impl|"+name] = true
		iface := it.Underlying().(*types.Interface)
		ids := make([]int, 0, len(x.prog.typeByID))
		for id := range x.prog.typeByID {
			ids = append(ids, id)
		}
		sort.Ints(ids)
		for _, id := range ids {
			t := x.prog.typeByID[id]
			if isInterface(t) {
				continue
			}
			if types.Implements(t, iface) {
				st.assume(fmt.Sprintf("(%s %d)", name, id))
			} else {
				st.assume(fmt.Sprintf("(not (%s %d))", name, id))
			}
		}
		st.assume(fmt.Sprintf("(not (%s 0))", name))
	}
	return "(" + name + " " + tag + ")"
}

func (x *Exec) typeAssert(st *State, in *ssa.TypeAssert) {
	v := x.value(st, in.X)
	at := in.AssertedType
	var ok Term
	var res Val
	if isInterface(at) {
		ok = x.implements(st, v.L[0], at)
		res = Val{T: at, L: v.L}
	} else {
		ok = tEq(v.L[0], tInt(int64(x.prog.typeID(at))))
		if isPointerLike(at) {
			res = Val{T: at, L: []Term{v.L[1]}}
		} else if isStringKinded(at) {
			res = Val{T: at, L: []Term{unboxString(v.L[1])}}
		} else {
			res = st.loadVal(v.L[1], at)
		}
	}
	if in.CommaOk {
		z := zeroVal(at)
		out := Val{T: in.Type()}
		for i := range res.L {
			out.L = append(out.L, tIte(ok, res.L[i], z.L[i]))
		}
		out.L = append(out.L, ok)
		x.setReg(st, in, out)
		return
	}
	x.oblige(st, "typeassert", describe(in.X), ok, x.spec.Props, "type assertion cannot fail", in.Pos())
	st.assume(ok)
	x.setReg(st, in, res)
}

// ---- return / panic ---------------------------------------------------------------------------

func (x *Exec) doReturn(st *State, res Val, pos token.Pos) {
	fr := st.top()
	if fr.retK != nil {
		st.frames = st.frames[:len(st.frames)-1]
		fr.retK(st, res)
		return
	}
	x.checkPost(st, res, pos)
	x.endPath()
}

func (x *Exec) checkPost(st *State, res Val, pos token.Pos) {
	vars := map[string]Val{}
	for k, v := range x.entryVars {
		vars[k] = v
	}
	bindResults(vars, x.fn.Signature, x.spec.Results, res)
	env := &Env{x: x, st: st, old: x.entry, vars: vars}
	if len(st.iterSnaps) == 1 {
		// a return out of the (only) loop: atiter() refers to the start of the iteration that returns
		for _, sn := range st.iterSnaps {
			env.iterSnap = sn
		}
	}
	for k, c := range x.spec.Ens {
		env.what = fmt.Sprintf("%s ensures (%s:%d)", x.fname, shortFile(c.File), c.Line)
		d := fmt.Sprint(k)
		if c.Label != "" {
			d = c.Label
		}
		if c.Bound != "" {
			// proved for an arbitrary value: a constant about which nothing is known
			vars[c.Bound] = intVal(x.skolemFor(c))
			x.oblige(st, "post", d, env.evalBool(c.Expr), x.propsFor(c), c.Text, pos)
			delete(vars, c.Bound)
			continue
		}
		parts := x.splitConj(c.Expr, 0)
		if len(parts) == 1 {
			x.oblige(st, "post", d, env.evalBool(c.Expr), x.propsFor(c), c.Text, pos)
			continue
		}
		for j, pe := range parts {
			x.oblige(st, "post", fmt.Sprintf("%s.%d", d, j), env.evalBool(pe), x.propsFor(c), c.Text+"  [conjunct: "+exprString(pe)+"]", pos)
		}
	}
	for k, c := range x.spec.Checks {
		env.what = fmt.Sprintf("%s checks (%s:%d)", x.fname, shortFile(c.File), c.Line)
		d := fmt.Sprint(k)
		if c.Label != "" {
			d = c.Label
		}
		parts := x.splitConj(c.Expr, 0)
		for j, pe := range parts {
			dd, desc := d, c.Text
			if len(parts) > 1 {
				dd = fmt.Sprintf("%s.%d", d, j)
				desc += "  [conjunct: " + exprString(pe) + "]"
			}
			x.oblige(st, "check", dd, env.evalBool(pe), x.propsFor(c), desc, pos)
		}
	}
	if len(st.held) > 0 {
		var hs []string
		for h := range st.held {
			hs = append(hs, h)
		}
		sort.Strings(hs)
		x.oblige(st, "lockleak", "", "false", x.spec.Props, "no lock is held at return: "+strings.Join(hs, ","), pos)
	}
	// reachability cover for this return
	cov := &Obligation{Name: fmt.Sprintf("%s#cover[return]#%d", x.fname, len(x.covers)), Func: x.fname, Kind: "cover", Props: x.spec.Props,
		Asms: append([]Term(nil), st.asms...), Goal: "false", decls: x.d, Desc: "return path reachable"}
	x.covers = append(x.covers, cov)
}

func (x *Exec) panicInstr(st *State, in *ssa.Panic) {
	goal := Term("false")
	if len(x.spec.PanicIf) > 0 {
		// the panic is permitted when one of the declared conditions held at entry
		env := &Env{x: x, st: st, cur: x.entry, old: x.entry, vars: x.entryVars}
		var alts []Term
		for _, c := range x.spec.PanicIf {
			env.what = x.fname + " panics only-if"
			alts = append(alts, env.evalBool(c.Expr))
		}
		goal = tOr(alts...)
	}
	x.oblige(st, "panic", "", goal, x.spec.Props, "explicit panic is unreachable (or permitted by panics only-if)", in.Pos())
	x.endPath()
}


// mayOverlap: can an object of type a share memory with an object of type b?
// Only if one (transitively) contains the other as a field or element.
func mayOverlap(a, b types.Type) bool {
	return containsType(a, b, 0) || containsType(b, a, 0)
}

func containsType(outer, inner types.Type, depth int) bool {
	if types.Identical(outer, inner) {
		return true
	}
	if depth > 6 {
		return true
	}
	switch u := outer.Underlying().(type) {
	case *types.Struct:
		for i := 0; i < u.NumFields(); i++ {
			if containsType(u.Field(i).Type(), inner, depth+1) {
				return true
			}
		}
	case *types.Array:
		return containsType(u.Elem(), inner, depth+1)
	}
	return false
}


// splitConj splits a clause into conjuncts: A && B, P ==> (A && B), and calls
// of non-recursive spec fns whose body is a conjunction (parameters
// substituted syntactically). Each conjunct becomes its own obligation, so a
// failure names the part of the contract that is violated.
func (x *Exec) splitConj(e ast.Expr, depth int) []ast.Expr {
	switch e := e.(type) {
	case *ast.ParenExpr:
		return x.splitConj(e.X, depth)
	case *ast.BinaryExpr:
		if e.Op == token.LAND {
			return append(x.splitConj(e.X, depth), x.splitConj(e.Y, depth)...)
		}
	case *ast.CallExpr:
		id, ok := e.Fun.(*ast.Ident)
		if !ok {
			break
		}
		if id.Name == "imp_" && len(e.Args) == 2 {
			var out []ast.Expr
			for _, c := range x.splitConj(e.Args[1], depth) {
				out = append(out, &ast.CallExpr{Fun: id, Args: []ast.Expr{e.Args[0], c}})
			}
			return out
		}
		if sf, ok := x.prog.spec.SpecFns[id.Name]; ok && !sf.Rec && !sf.Uninterp && depth < 3 && len(sf.Params) == len(e.Args) {
			// only when arguments are simple (identifiers / selectors): substitution is then safe
			simple := true
			for _, a := range e.Args {
				if !isSimpleArg(a) {
					simple = false
				}
			}
			if simple {
				sub := map[string]ast.Expr{}
				for i, p := range sf.Params {
					sub[p.Name] = e.Args[i]
				}
				body := substIdents(sf.Body.Expr, sub)
				parts := x.splitConj(body, depth+1)
				if len(parts) > 1 {
					return parts
				}
			}
		}
	}
	return []ast.Expr{e}
}

func isSimpleArg(e ast.Expr) bool {
	switch e := e.(type) {
	case *ast.Ident:
		return true
	case *ast.SelectorExpr:
		return isSimpleArg(e.X)
	case *ast.UnaryExpr:
		return e.Op == token.AND && isSimpleArg(e.X)
	case *ast.StarExpr:
		return isSimpleArg(e.X)
	case *ast.ParenExpr:
		return isSimpleArg(e.X)
	}
	return false
}

func substIdents(e ast.Expr, sub map[string]ast.Expr) ast.Expr {
	switch e := e.(type) {
	case *ast.Ident:
		if r, ok := sub[e.Name]; ok {
			return &ast.ParenExpr{X: r}
		}
		return e
	case *ast.ParenExpr:
		return &ast.ParenExpr{X: substIdents(e.X, sub)}
	case *ast.SelectorExpr:
		return &ast.SelectorExpr{X: substIdents(e.X, sub), Sel: e.Sel}
	case *ast.StarExpr:
		return &ast.StarExpr{X: substIdents(e.X, sub)}
	case *ast.UnaryExpr:
		return &ast.UnaryExpr{Op: e.Op, X: substIdents(e.X, sub)}
	case *ast.BinaryExpr:
		return &ast.BinaryExpr{X: substIdents(e.X, sub), Op: e.Op, Y: substIdents(e.Y, sub)}
	case *ast.CallExpr:
		args := make([]ast.Expr, len(e.Args))
		for i, a := range e.Args {
			args[i] = substIdents(a, sub)
		}
		return &ast.CallExpr{Fun: e.Fun, Args: args}
	case *ast.IndexExpr:
		return &ast.IndexExpr{X: substIdents(e.X, sub), Index: substIdents(e.Index, sub)}
	case *ast.TypeAssertExpr:
		return &ast.TypeAssertExpr{X: substIdents(e.X, sub), Type: e.Type}
	case *ast.CompositeLit:
		return e
	}
	return e
}


// zeroGhosts initialises the ghost fields declared for t (and for the struct
// types nested in it by value) at a freshly allocated address.
func (x *Exec) zeroGhosts(st *State, addr Term, t types.Type, depth int) {
	if n, ok := t.(*types.Named); ok {
		owner := n.Obj().Name()
		if n.Obj().Pkg() != nil && n.Obj().Pkg() != x.prog.pkg.Types {
			owner = n.Obj().Pkg().Name() + "." + owner
		}
		for _, g := range x.prog.spec.Ghosts[owner] {
			gt := x.parseType(g.Type)
			st.storeVal(extendGhost(addr, g.Index), zeroVal(gt))
		}
	}
	if depth > 4 {
		return
	}
	if stt, ok := t.Underlying().(*types.Struct); ok {
		for i := 0; i < stt.NumFields(); i++ {
			ft := stt.Field(i).Type()
			if _, isStruct := ft.Underlying().(*types.Struct); isStruct {
				x.zeroGhosts(st, extend(addr, []int{i}), ft, depth+1)
			}
		}
	}
}


// ghostInit: assumptions about uninterpreted attributes of a freshly allocated
// local object, named by its source variable (e.g. the key of a reply channel).
func (x *Exec) ghostInit(st *State, in ssa.Instruction) {
	fr := st.top()
	fs := x.prog.spec.Funcs[x.prog.relName(fr.fn)]
	if fs == nil && len(st.frames) > 1 {
		fs = x.spec // an inlined helper runs under the contract of the function being verified
	}
	if fs == nil || len(fs.GhostInit) == 0 {
		return
	}
	v, ok := in.(ssa.Value)
	if !ok {
		return
	}
	// the DebugRef naming the variable follows the allocation; look it up by value
	name := x.localNameOf(fr.fn, v)
	cs := fs.GhostInit[name]
	if len(cs) == 0 || name == "" {
		// by type: `ghostinit anychan.T : expr over v` applies to every make(chan T / chan *T)
		if _, isMake := in.(*ssa.MakeChan); isMake {
			if ak := anyChanKey(v.Type()); ak != "" && len(fs.GhostInit[ak]) > 0 {
				sf := fr
				if fs == x.spec && len(st.frames) > 1 {
					sf = st.frames[0] // the clause is written in the scope of the function under contract
				}
				vars := x.scopeVars(st, sf)
				vars["v"] = fr.regs[v]
				env := &Env{x: x, st: st, old: x.entry, vars: vars, what: x.prog.relName(fr.fn) + " ghostinit " + ak}
				for _, c := range fs.GhostInit[ak] {
					st.assume(env.evalBool(c.Expr))
				}
			}
		}
		return
	}
	vars := x.scopeVars(st, fr)
	vars[name] = fr.regs[v]
	env := &Env{x: x, st: st, old: x.entry, vars: vars, what: x.prog.relName(fr.fn) + " ghostinit " + name}
	for _, c := range cs {
		st.assume(env.evalBool(c.Expr))
	}
}

// onRef: obligations at the place where a function value of a given function is created.
func (x *Exec) onRef(st *State, fn *ssa.Function, pos token.Pos) {
	fr := st.top()
	fs := x.prog.spec.Funcs[x.prog.relName(fr.fn)]
	if fs == nil || len(fs.OnRef) == 0 {
		return
	}
	base := baseFuncName(x.prog, fn)
	for k, c := range fs.OnRef[base] {
		env := &Env{x: x, st: st, old: x.entry, vars: x.scopeVars(st, fr), what: x.prog.relName(fr.fn) + " onref " + base}
		props := x.spec.Props
		if len(c.Props) > 0 {
			props = c.Props
		}
		x.oblige(st, "onref", fmt.Sprintf("%s:%d", base, k), env.evalBool(c.Expr), props, "where "+base+" is referenced: "+c.Text, pos)
	}
}


func isStringKinded(t types.Type) bool {
	b, ok := t.Underlying().(*types.Basic)
	return ok && b.Info()&types.IsString != 0
}


func (x *Exec) reveals(name string) bool {
	for _, r := range x.spec.Reveals {
		if r == name {
			return true
		}
	}
	return false
}

// skolemFor: the constant standing for the bound variable of a quantified postcondition of the function
// under verification. All of them are created together (in clause order) so that every path sees the same.
func (x *Exec) skolemFor(c *Clause) Term {
	if x.skolems == nil {
		x.skolems = map[*Clause]Term{}
		for _, e := range x.boundClauses() {
			x.skolems[e] = Term(x.d.FreshConst("sk_"+e.Bound, "Int"))
		}
	}
	return x.skolems[c]
}

// boundClauses: the quantified clauses of the function under verification (postconditions and loop
// invariants), in a fixed order.
func (x *Exec) boundClauses() []*Clause {
	var out []*Clause
	for _, e := range x.spec.Ens {
		if e.Bound != "" {
			out = append(out, e)
		}
	}
	var ords []int
	for o := range x.spec.Loops {
		ords = append(ords, o)
	}
	sort.Ints(ords)
	for _, o := range ords {
		for _, c := range x.spec.Loops[o].Invs {
			if c.Bound != "" {
				out = append(out, c)
			}
		}
	}
	return out
}

func (x *Exec) skolemTerms() []Term {
	var out []Term
	for _, e := range x.boundClauses() {
		out = append(out, x.skolemFor(e))
	}
	return out
}
