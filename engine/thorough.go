package main

// Thorough tier extras (DESIGN.md §3.13, §9.7): (1) bounded differential
// validation of the library contracts the proof ASSUMES, run against the real
// libraries; labelled bounded, never counted as proved. (2) the canary corpus:
// every must-fail mutation and seeded change of the property has to be reported.

import (
	"bytes"
	"context"
	"encoding/json"
	"fmt"
	"os"
	"os/exec"
	"path/filepath"
	"regexp"
	"strconv"
	"strings"
	"time"
)

type validator struct {
	test    string   // Go test name in validate/limevc_validate_test.go.txt
	what    string   // the assumption it samples
	usedAny []string // run when one of these contracts was used by the property's proof
}

var validators = []validator{
	{"TestLimevcValidate_WireRawEnvelope", "derived encoding/json wire contract of rawEnvelope (derive wire)", []string{"func verifWireRawEnvelope"}},
	{"TestLimevcValidate_Split", "extern strings.Split (first two fields, non-empty separator)", []string{"extern strings.Split"}},
	{"TestLimevcValidate_Sprintf", "engine model of fmt.Sprintf with %v verbs", []string{"builtin fmt.Sprintf(%v)"}},
	{"TestLimevcValidate_DecoderBudget", "extern (*json.Decoder).Decode over io.LimitedReader: budget accounting", []string{"extern (*encoding/json.Decoder).Decode[*rawEnvelope]"}},
	{"TestLimevcValidate_ContextValue", "extern context.WithValue / Context.Value against the recursive ctxValue model", []string{"extern context.WithValue", "method context.Context.Value"}},
	{"TestLimevcValidate_ReflectNil", "extern reflect.ValueOf / Value.IsNil as the typed-nil test", []string{"extern reflect.ValueOf", "extern (reflect.Value).IsNil"}},
	{"TestLimevcValidate_Intersect", "extern contracts of reflect.Value Len/Index/Interface over option slices: the postcondition proved for intersect from them is checked on the real reflect package (exhaustive for slices of length <= 3 over 3 values)", []string{"extern (reflect.Value).Index", "extern (reflect.Value).Len", "extern (reflect.Value).Interface"}},
	{"TestLimevcValidate_URIText", "net/url behind the URI text form (textOK_URI / textOf_URI / parsed_URI are uninterpreted): accepted URIs print to a stable text that parses back, also through the wire", []string{"extern net/url.Parse", "func ParseLimeURI"}},
	{"TestLimevcValidate_DocumentReencode", "note on extern json.Unmarshal[*Document]: an accepted document re-encodes and decodes into the same type", []string{"extern encoding/json.Unmarshal[*Document]"}},
}

var boundedRe = regexp.MustCompile(`LIMEVC-BOUNDED (.*) cases=(\d+) nontrivial=(\d+) distinct=(\d+)`)

func (r *Report) runThorough(used map[string]bool) {
	rc := r.rc
	env := append(os.Environ(), "GOFLAGS=-mod=mod", "GOPROXY=off", "GOSUMDB=off", "GOTOOLCHAIN=local",
		fmt.Sprintf("VERIF_SEED=%d", rc.seed), "LIMEVC_VALIDATE_N=20000")
	dir := filepath.Join(rc.outDir, "bounded", rc.prop)
	os.MkdirAll(dir, 0o755)
	src := filepath.Join(rc.verif, "validate", "limevc_validate_test.go.txt")
	ov := map[string]map[string]string{"Replace": {filepath.Join(rc.repo, "zz_limevc_validate_test.go"): src}}
	ovb, _ := json.Marshal(ov)
	ovpath := filepath.Join(dir, "overlay.json")
	os.WriteFile(ovpath, ovb, 0o644)
	for _, v := range validators {
		need := false
		for _, u := range v.usedAny {
			if used[u] {
				need = true
			}
		}
		if !need {
			continue
		}
		start := time.Now()
		ctx, cancel := context.WithTimeout(context.Background(), 300*time.Second)
		cmd := exec.CommandContext(ctx, "go", "test", "-overlay", ovpath, "-vet=off", "-count=1", "-timeout", "240s", "-run", "^"+v.test+"$", "-v", ".")
		cmd.Dir = rc.repo
		cmd.Env = env
		var out bytes.Buffer
		cmd.Stdout = &out
		cmd.Stderr = &out
		err := cmd.Run()
		cancel()
		res := map[string]interface{}{"validation": v.test, "assumption": v.what, "label": "bounded (sampled inputs against the real library; not a proof)", "seconds": round3(time.Since(start).Seconds())}
		if m := boundedRe.FindStringSubmatch(out.String()); m != nil {
			c, _ := strconv.Atoi(m[2])
			n, _ := strconv.Atoi(m[3])
			d, _ := strconv.Atoi(m[4])
			res["cases"], res["nontrivial"], res["distinct"] = c, n, d
		}
		if err != nil || !strings.Contains(out.String(), "--- PASS: "+v.test) {
			res["status"] = "FAILED"
			path := filepath.Join(dir, v.test+".txt")
			os.WriteFile(path, out.Bytes(), 0o644)
			r.extraViol = append(r.extraViol, fmt.Sprintf("VIOLATION property=%s replay=%s obligation=assumption[%s] status=refuted-on-the-real-library", rc.prop, path, v.test))
		} else {
			res["status"] = "held on every sampled case"
		}
		r.bounded = append(r.bounded, res)
	}
	// canaries
	start := time.Now()
	cmd := exec.Command("python3", filepath.Join(rc.verif, "selftest.py"), rc.prop)
	cmd.Env = append(env, "VERIF_REPO="+rc.repo)
	var out bytes.Buffer
	cmd.Stdout = &out
	cmd.Stderr = &out
	_ = cmd.Run()
	cases, missed := 0, 0
	var missedNames []string
	for _, l := range strings.Split(out.String(), "\n") {
		if strings.HasPrefix(l, "ok  ") {
			cases++
		} else if strings.HasPrefix(l, "FAIL ") {
			cases++
			missed++
			missedNames = append(missedNames, strings.TrimSpace(strings.SplitN(l[5:], ":", 2)[0]))
		}
	}
	r.bounded = append(r.bounded, map[string]interface{}{"validation": "canaries", "assumption": "the check reports every must-fail mutation and seeded change of this property (selftest/ and seeded/)", "cases": cases, "missed": missedNames, "seconds": round3(time.Since(start).Seconds())})
	if missed > 0 || cases == 0 {
		fmt.Printf("UNDECIDED property=%s canary corpus: %d of %d cases not reported as expected: %s\n", rc.prop, missed, cases, strings.Join(missedNames, ", "))
		r.undecided++
	}
}
